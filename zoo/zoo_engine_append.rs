    #[allow(dead_code, unused_variables, unused_mut, unused_assignments)]
    pub fn z_graph(dag: &mut GraphType, jobs: &[NodeInfo], a: NodeIndex, b: NodeIndex) -> usize {
        let mut n = 0;
        for (u, d, w) in dag.edges_directed(a, Direction::Outgoing) { if w.required == Required::Yes { n += d; } }
        for (u, d, w) in dag.edges_directed(a, Direction::Incoming) { n += u; }
        for (u, d, w) in dag.edges(a) { n += 1; }
        for x in dag.neighbors(a) { n += x; }
        if dag.contains_edge(a, b) { n += 1; }
        if dag.contains_node(a) { n += 1; }
        n += dag.node_count();
        n += dag.edge_count();
        if let Some(w) = dag.edge_weight(a, b) { if w.invalidated == Required::No { n += 1; } }
        dag.remove_edge(a, b);
        let v: Vec<usize> = dag.neighbors_directed(a, Direction::Incoming).collect();
        n += v.len();
        if dag.neighbors_directed(a, Direction::Outgoing).any(|x| jobs[x].state.is_finished()) { n += 1; }
        if dag.neighbors_directed(a, Direction::Outgoing).all(|x| jobs[x].state.is_finished()) { n += 1; }
        n += dag.neighbors_directed(a, Direction::Outgoing).filter(|x| jobs[*x].state.is_finished()).count();
        if let Some(x) = dag.neighbors_directed(a, Direction::Outgoing).find(|x| jobs[*x].state.is_finished()) { n += x; }
        if dag.neighbors_directed(a, Direction::Outgoing).next().is_none() { n += 1; }
        n += dag.neighbors_directed(a, Direction::Outgoing).map(|x| x + 1).sum::<usize>();
        n += dag.neighbors_directed(a, Direction::Outgoing).max().unwrap_or(0);
        n += dag.neighbors_directed(a, Direction::Outgoing).min().unwrap_or(0);
        n += dag.neighbors_directed(a, Direction::Outgoing).fold(0, |acc, x| acc + x);
        dag.neighbors_directed(a, Direction::Outgoing).for_each(|x| { let _ = x; });
        for (i, x) in dag.neighbors_directed(a, Direction::Outgoing).enumerate().skip(1).take(2) { n += i + x; }
        if let Some(x) = dag.neighbors_directed(a, Direction::Outgoing).last() { n += x; }
        for x in dag.neighbors_directed(a, Direction::Outgoing).chain(dag.neighbors_directed(a, Direction::Incoming)) { n += x; }
        if let Some(p) = dag.neighbors_directed(a, Direction::Outgoing).find_map(|x| if x > 1 { Some(x) } else { None }) { n += p; }
        let mut pk = dag.neighbors_directed(a, Direction::Outgoing).peekable();
        if pk.peek().is_some() { n += 1; }
        for (x, y) in dag.nodes().zip(dag.nodes()) { n += x + y; }
        n
    }
    #[allow(dead_code, unused_variables, unused_mut, unused_assignments)]
    pub fn z_vec(v: &mut Vec<usize>, s: &mut Vec<String>, jobs: &mut Vec<NodeInfo>) -> usize {
        let mut n = 0;
        if v.contains(&3) { n += 1; }
        if let Some(x) = v.first() { n += x; }
        if let Some(x) = v.last() { n += x; }
        if let Some(x) = v.get(2) { n += x; }
        if let Some(x) = v.get_mut(2) { *x += 1; }
        if let Some(x) = v.pop() { n += x; }
        v.insert(0, 7);
        n += v.remove(0);
        let mut e3 = Vec::new(); e3.push(1); e3.push(2); e3.push(3);
        v.extend(e3);
        v.extend_from_slice(&[4, 5]);
        v.sort();
        v.sort_unstable();
        v.dedup();
        v.reverse();
        v.truncate(10);
        v.swap(0, 1);
        for x in v.iter().rev() { n += x; }
        for x in v.iter_mut() { *x += 1; }
        for x in v.drain(..) { n += x; }
        v.clear();
        let w: Vec<usize> = Vec::with_capacity(4);
        n += w.len();
        let c = v.clone();
        n += c.iter().sum::<usize>();
        n += v.iter().copied().max().unwrap_or(0);
        n += v.iter().cloned().min().unwrap_or(0);
        if v.iter().any(|x| *x == 3) { n += 1; }
        if v.iter().all(|x| *x == 3) { n += 1; }
        n += v.iter().position(|x| *x == 3).unwrap_or(0);
        n += v.iter().filter(|x| **x > 3).count();
        if s.contains(&"a".to_string()) { n += 1; }
        if s.iter().any(|x| x == "a") { n += 1; }
        s.push("x".to_string());
        s.sort();
        let joined = s.join(",");
        n += joined.len();
        for j in jobs.iter_mut() { if j.state.is_finished() { n += 1; } }
        n += jobs.iter().filter(|j| j.state.is_running()).count();
        if let Some(j) = jobs.iter().find(|j| j.job_id == "A") { n += j.job_id.len(); }
        if v.is_empty() { n += 1; }
        let mut lit = vec![1usize, 2, 3];
        if let Some(x) = lit.last_mut() { *x += 5; }
        if let Some(x) = lit.first_mut() { *x += 7; }
        n += lit.iter().sum::<usize>();
        let mut frames: Vec<(usize, Vec<usize>, usize, bool)> = vec![(1, vec![4, 5], 0, false)];
        { let f = frames.last_mut().unwrap(); f.2 += 1; f.3 = true; n += f.1[f.2]; }
        if let Some(f) = frames.pop() { if f.3 { n += f.0 + f.2; } }
        let sl = &v[..];
        n += sl.len();
        n
    }
    #[allow(dead_code, unused_variables, unused_mut, unused_assignments)]
    pub fn z_map(h: &mut HashMap<String, String>, hs: &mut HashSet<String>, hu: &mut HashSet<usize>) -> usize {
        let mut n = 0;
        if let Some(x) = h.get_mut("a") { x.push('c'); }
        *h.entry("k".to_string()).or_insert("v".to_string()) = "w".to_string();
        h.entry("k".to_string()).or_insert_with(|| "v".to_string());
        h.entry("k".to_string()).or_default();
        for v in h.values() { n += v.len(); }
        for (k, v) in h.iter() { n += k.len() + v.len(); }
        for (k, v) in h.iter_mut() { v.push('x'); }
        for k in h.keys() { n += k.len(); }
        n += h.len();
        if h.is_empty() { n += 1; }
        h.retain(|k, v| k.len() > 1);
        let mut ev = Vec::new(); ev.push(("a".to_string(), "b".to_string()));
        h.extend(ev);
        if let Some((k, v)) = h.get_key_value("a") { n += k.len(); }
        if let Some(v) = h.remove("a") { n += v.len(); }
        let c = h.clone();
        h.clear();
        n += hs.len();
        if hs.is_empty() { n += 1; }
        let mut ev2 = Vec::new(); ev2.push("ab".to_string());
        hs.extend(ev2);
        hs.retain(|x| x.len() > 1);
        for x in hs.iter() { n += x.len(); }
        for x in hs.union(&hs.clone()) { n += x.len(); }
        for x in hs.difference(&hs.clone()) { n += x.len(); }
        if hs.is_subset(&hs.clone()) { n += 1; }
        if hs.is_superset(&hs.clone()) { n += 1; }
        if hs.is_disjoint(&hs.clone()) { n += 1; }
        hs.clear();
        hu.insert(3);
        if hu.contains(&3) { n += 1; }
        hu.remove(&3);
        for x in hu.iter() { n += x; }
        for x in hu.drain() { n += x; }
        let hv: Vec<usize> = hu.iter().copied().collect();
        n += hv.len();
        if hs.iter().any(|x| x == "a") { n += 1; }
        n
    }
    #[allow(dead_code, unused_variables, unused_mut, unused_assignments)]
    pub fn z_opt(o: Option<String>, p: Option<usize>, r: Result<usize, PPGEvaluatorError>, h: &HashMap<String, String>) -> usize {
        let mut n = 0;
        n += o.as_ref().map(|x| x.len()).unwrap_or(0);
        n += o.as_deref().map(|x| x.len()).unwrap_or(0);
        n += p.unwrap_or(0);
        n += p.unwrap_or_default();
        n += p.unwrap_or_else(|| 3);
        n += p.map_or(0, |x| x + 1);
        n += p.and_then(|x| if x > 1 { Some(x) } else { None }).unwrap_or(0);
        n += p.filter(|x| *x > 1).unwrap_or(0);
        n += p.or(Some(1)).unwrap();
        n += p.or_else(|| Some(1)).unwrap();
        if p.is_some_and(|x| x > 1) { n += 1; }
        if let Some((a, b)) = p.zip(p) { n += a + b; }
        if p == Some(3) { n += 1; }
        if o == Some("a".to_string()) { n += 1; }
        if h.get("a") == Some(&"b".to_string()) { n += 1; }
        if h.get("a").map(|x| &x[..]) == Some("b") { n += 1; }
        if h.get("a").is_some() { n += 1; }
        if h.get("a").map(|x| x.as_str()) == Some("b") { n += 1; }
        n += h.get("a").cloned().unwrap_or_default().len();
        n += h.get("a").ok_or(0usize).map(|x| x.len()).unwrap_or(0);
        let mut q = p;
        if let Some(x) = q.take() { n += x; }
        if let Some(x) = q.as_mut() { *x += 1; }
        q.replace(4);
        q.get_or_insert(5);
        if r.is_ok() { n += 1; }
        if r.is_err() { n += 1; }
        n += r.as_ref().map(|x| *x).unwrap_or(0);
        n += r.as_ref().ok().copied().unwrap_or(0);
        let r2 = r.map_err(|e| 3usize);
        n += r2.unwrap_or(0);
        n
    }
    #[allow(dead_code, unused_variables, unused_mut, unused_assignments)]
    pub fn z_str(a: &str, b: &String, c: String) -> usize {
        let mut n = 0;
        n += a.len() + b.len();
        if a.starts_with("x") { n += 1; }
        if a.ends_with("x") { n += 1; }
        if a.starts_with(b.as_str()) { n += 1; }
        if a.contains(":::") { n += 1; }
        if a == b { n += 1; }
        if b == a { n += 1; }
        if *b == c { n += 1; }
        if b != &c { n += 1; }
        if a == "lit" { n += 1; }
        if b == "lit" { n += 1; }
        if c.as_str() == "lit" { n += 1; }
        if &b[..] == "lit" { n += 1; }
        if a.is_empty() { n += 1; }
        let t = a.trim();
        n += t.len();
        let o = a.to_owned();
        let s2 = a.to_string();
        let s3 = String::from(a);
        let s4 = b.clone() + "x";
        let s5 = format!("{}{}", a, b);
        let s6 = format!("{a}!!!{b}");
        n += s5.len() + s6.len();
        let parts: Vec<&str> = a.split(":::").collect();
        n += parts.len();
        let hs: HashSet<&str> = a.split(":::").collect();
        n += hs.len();
        if let Some(i) = a.find("!!!") { n += i; }
        if let Some(x) = a.strip_suffix("!!!") { n += x.len(); }
        if let Some(x) = a.strip_prefix("!!!") { n += x.len(); }
        if let Some((l, r)) = a.rsplit_once("!!!") { n += l.len(); }
        let rep = a.replace("a", "b");
        n += rep.len();
        n += a.cmp(b.as_str()) as usize;
        if a < b.as_str() { n += 1; }
        n += a.chars().count();
        n += a.bytes().count();
        let lower = a.to_lowercase(); n += lower.len();
        for p in a.split('\n') { n += p.len(); }
        for p in a.lines() { n += p.len(); }
        n
    }
    #[allow(dead_code, unused_variables, unused_mut, unused_assignments)]
    pub fn z_misc(x: usize, y: usize, f: bool, st: &mut JobState, v: &mut Vec<usize>) -> usize {
        let mut n = 0;
        n += x.saturating_sub(y);
        n += x.min(y) + x.max(y);
        n += std::cmp::min(x, y) + std::cmp::max(x, y);
        n += x.checked_add(y).unwrap_or(0);
        n += x.checked_sub(y).unwrap_or(0);
        n += x.wrapping_add(y);
        n += x.pow(2);
        n += x.abs_diff(y);
        if let Some(z) = f.then(|| 3) { n += z; }
        if let Some(z) = f.then_some(3) { n += z; }
        let old = std::mem::replace(st, JobState::Always(JobStateAlways::Undetermined));
        let tk = std::mem::take(v);
        let mut one = Vec::new(); one.push(1usize);
        std::mem::swap(v, &mut one);
        let c = st.clone();
        if c == *st { n += 1; }
        if matches!(st, JobState::Always(_)) { n += 1; }
        n += (x as u32) as usize;
        for i in 0..x { n += i; }
        for i in (0..x).rev() { n += i; }
        for i in 0..=x { n += i; }
        let b: Box<usize> = Box::new(x);
        n += *b;
        debug_assert!(x < 100000);
        assert!(x < 100000, "too big {}", x);
        assert_eq!(x, x);
        n
    }

    #[allow(dead_code, unused_variables, unused_mut)]
    pub fn zoo_main() -> Vec<usize> {
        let mut out = Vec::new();
        let mut dag = GraphType::new();
        for i in 0..5usize { dag.add_node(i); }
        for (a, b) in [(0usize, 1usize), (0, 2), (1, 3), (2, 3), (3, 4), (0, 4)] {
            dag.add_edge(a, b, EdgeInfo { required: if a == 0 { Required::Yes } else { Required::Unknown }, invalidated: Required::No });
        }
        let mut jobs = Vec::new();
        for (i, name) in ["A", "B", "C", "D", "E"].iter().enumerate() {
            jobs.push(NodeInfo { job_id: name.to_string(), state: if i % 2 == 0 { JobState::Output(JobStateOutput::FinishedSuccess) } else { JobState::Output(JobStateOutput::Running) }, history_output: None, last_considered_in_gen: 0 });
        }
        out.push(z_graph(&mut dag, &jobs, 0, 1));
        out.push(z_graph(&mut dag, &jobs, 3, 4));
        let mut v = Vec::new(); for i in [5usize, 3, 9, 3, 1, 7] { v.push(i); }
        let mut s = Vec::new(); s.push("b".to_string()); s.push("a".to_string());
        out.push(z_vec(&mut v, &mut s, &mut jobs));
        let mut h = HashMap::new(); h.insert("a".to_string(), "b".to_string()); h.insert("kk".to_string(), "vv".to_string());
        let mut hs = HashSet::new(); hs.insert("xy".to_string()); hs.insert("z".to_string());
        let mut hu = HashSet::new(); hu.insert(4usize); hu.insert(6usize);
        out.push(z_map(&mut h, &mut hs, &mut hu));
        let mut h2 = HashMap::new(); h2.insert("a".to_string(), "b".to_string());
        out.push(z_opt(Some("abc".to_string()), Some(3), Ok(5), &h2));
        out.push(z_opt(None, None, Err(PPGEvaluatorError::InternalError("x".to_string())), &HashMap::new()));
        out.push(z_str("x:::y!!!zx", &"x:::y".to_string(), "lit".to_string()));
        out.push(z_str("", &"".to_string(), "".to_string()));
        let mut st = JobState::Output(JobStateOutput::Running);
        let mut v2 = Vec::new(); v2.push(2usize);
        out.push(z_misc(7, 3, true, &mut st, &mut v2));
        out.push(z_misc(3, 7, false, &mut st, &mut v2));
        out
    }


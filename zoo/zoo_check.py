"""native vs MIR-executor comparison of the API zoo (see README.md).  exit 0 = identical"""
import os, sys, shutil, subprocess, re, importlib.util
VERIF = os.path.dirname(os.path.dirname(os.path.abspath(__file__)))
sys.path.insert(0, VERIF)
from mirsym import build, mir2py

work = os.path.join(build.SCRATCH, 'zoo')
build.copy_tree(build.REPO, work)
eng = os.path.join(work, 'src', 'engine.rs')
open(eng, 'a').write('\n' + open(os.path.join(VERIF, 'zoo', 'zoo_engine_append.rs')).read())
tests = os.path.join(work, 'src', 'tests.rs')
open(tests, 'a').write('\n#[test]\nfn zoo_print() {\n    println!("ZOO {:?}", crate::engine::zoo_main());\n}\n')
env = build.cargo_env(os.path.join(build.CACHE, 'zoo-target'))
p = subprocess.run(['cargo', 'test', '--offline', 'zoo_print', '--', '--nocapture'], cwd=work, env=env, stdout=subprocess.PIPE,
                   stderr=subprocess.PIPE, text=True)
m = re.search(r'ZOO \[([0-9, ]*)\]', p.stdout)
if not m:
    print('zoo: native run failed\n' + p.stderr[-2000:])
    sys.exit(2)
native = [int(x) for x in m.group(1).split(',')]
os.utime(os.path.join(work, 'src', 'lib.rs'), None)
p = subprocess.run(['cargo', '+nightly', 'rustc', '--offline', '--lib', '--', '-Zunpretty=mir', '-C', 'debug-assertions=off', '-C',
                    'overflow-checks=on'], cwd=work, env=build.cargo_env(os.path.join(build.CACHE, 'mir-target')),
                   stdout=subprocess.PIPE, stderr=subprocess.PIPE, text=True)
if p.returncode != 0:
    print('zoo: MIR dump failed\n' + p.stderr[-2000:])
    sys.exit(2)
code, g = mir2py.generate_module(p.stdout, work)
path = os.path.join(build.CACHE, 'gen', 'zoo_gen.py')
os.makedirs(os.path.dirname(path), exist_ok=True)
open(path, 'w').write(code)
spec = importlib.util.spec_from_file_location('zoo_gen', path)
mod = importlib.util.module_from_spec(spec)
spec.loader.exec_module(mod)
got = list(mod.BODIES['zoo_main']().items)
shutil.rmtree(work, ignore_errors=True)
print('zoo native :', native)
print('zoo mirsym :', got)
sys.exit(0 if native == got else 1)

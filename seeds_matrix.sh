#!/bin/sh
# usage: seeds_matrix.sh <outfile> <seed-id>...  -- for each seeded change: run the check of its own property (and extra
# properties given in $EXTRA) against a scratch worktree with the change applied; appends "seed prop rc what" lines
cd "$(dirname "$0")" || exit 2
out=$1; shift
for s in "$@"; do
    prop=${s%%-*}
    patch=$(readlink -f seeded/$s/patch.diff)
    wt=/tmp/verif_seed_$$_$s
    git -C /repo worktree add --detach -f "$wt" HEAD >/dev/null 2>&1 || { echo "$s $prop rc=99 cannot create worktree" >> $out; continue; }
    if ! git -C "$wt" apply "$patch" 2>/dev/null; then echo "$s $prop rc=98 patch does not apply" >> $out; git -C /repo worktree remove --force "$wt"; continue; fi
    for p in $prop $EXTRA; do
        VERIF_REPO="$wt" ./check "$p" --tier quick > "out/seed_${s}_$p.log" 2>&1
        rc=$?
        echo "$s $p rc=$rc $(grep -m1 -A1 '^VIOLATION' out/seed_${s}_$p.log | tail -1 | cut -c1-220) $(grep -m1 '^INCONCLUSIVE' out/seed_${s}_$p.log | cut -c1-200)" >> $out
    done
    git -C /repo worktree remove --force "$wt" >/dev/null 2>&1
    rm -rf "$wt"
done

#!/bin/sh
# Standing evidence that the checks detect realistic breakage: each pre-fix behaviour (mutants/*.patch) and each
# kept seeded change (seeded/*/patch.diff) is applied to a scratch worktree of /repo (never to /repo itself) and the
# named check must report a VIOLATION (exit 1).  usage: ./canaries.sh [name-filter]
cd "$(dirname "$0")" || exit 2
VERIF=$(pwd)
fail=0
run_one() {
    name=$1; patch=$2; prop=$3
    wt=/tmp/verif_canary_$$_$name
    git -C /repo worktree add --detach -f "$wt" HEAD >/dev/null 2>&1 || { echo "CANARY $name: cannot create worktree"; fail=1; return; }
    if ! git -C "$wt" apply "$VERIF/$patch"; then echo "CANARY $name: patch does not apply"; fail=1
    else
        VERIF_REPO="$wt" ./check "$prop" --tier quick > "$VERIF/out/canary_$name.log" 2>&1
        rc=$?
        if [ $rc -eq 1 ]; then echo "CANARY $name: detected by $prop ($(grep -c '^VIOLATION' "$VERIF/out/canary_$name.log") violation lines)"
        else echo "CANARY $name: NOT detected by $prop (rc=$rc)"; tail -3 "$VERIF/out/canary_$name.log"; fail=1; fi
    fi
    git -C /repo worktree remove --force "$wt" >/dev/null 2>&1
    rm -rf "$wt"
}
mkdir -p out
while read -r name patch prop; do
    [ -z "$name" ] && continue
    case "$name" in \#*) continue;; esac
    if [ -n "$1" ]; then case "$name" in *$1*) ;; *) continue;; esac; fi
    run_one "$name" "$patch" "$prop"
done < canaries.txt
exit $fail

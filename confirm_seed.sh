#!/bin/sh
# usage: confirm_seed.sh <worktree> <seed-dir>  -- confirms, in the scratch worktree, that the seeded change compiles, passes the
# existing suite, and that its demonstration test fails with the change and passes without it.  Prints one summary line.
wt=$1; sd=$(readlink -f "$2")
cd "$wt" || exit 2
export CARGO_TARGET_DIR=$wt/target CARGO_NET_OFFLINE=true
git checkout -q -- . 
git apply "$sd/patch.diff" || { echo "SEED $sd: patch does not apply"; exit 1; }
suite=$(cargo test --offline 2>&1 | grep -E "^test result" | head -1)
git apply "$sd/demo.diff" || { echo "SEED $sd: demo does not apply"; git checkout -q -- .; exit 1; }
name=$(grep -E "^\+\s*fn " "$sd/demo.diff" | grep -oE "fn [a-zA-Z0-9_]+" | awk '{print $2}' | grep -E "^test|seed|c[0-9]+" | head -1)
with=$(cargo test --offline "$name" 2>&1 | grep -E "^test result" | head -1)
git checkout -q -- src/engine.rs src/lib.rs
without=$(cargo test --offline "$name" 2>&1 | grep -E "^test result" | head -1)
git checkout -q -- .
echo "SEED $sd demo=$name"
echo "   suite with patch : $suite"
echo "   demo with patch  : $with"
echo "   demo without     : $without"

#!/bin/sh
# Build the framework from files on disk only (offline): MIR dump + code generation, native replay binary,
# then the full translator/model validation (differential traces against the compiled crate).
cd "$(dirname "$0")" || exit 2
export CARGO_NET_OFFLINE=true
python3-vt - <<'PY'
import sys, os
sys.path.insert(0, os.getcwd())
from mirsym import build, difftest
mod, info = build.load_engine()
print('engine:', info)
rb = build.build_replay()
r = difftest.run(mod, rb, 3000, 12345)
if r['mismatches']:
    sc, d = r['mismatches'][0]
    print('SETUP FAILED: model/native mismatch', d)
    print(sc.to_text())
    sys.exit(1)
print('setup ok')
PY
# extended library models: native vs MIR-executor comparison of the API zoo (zoo/README.md); a mismatch means the models
# are wrong -> fail; a zoo that does not build against this tree (changed type definitions) is only reported
python3-vt zoo/zoo_check.py
rc=$?
if [ $rc -eq 1 ]; then echo "SETUP FAILED: API zoo mismatch (library models disagree with the real std/petgraph)"; exit 1; fi
[ $rc -ne 0 ] && echo "setup: API zoo could not be built against this tree (not fatal)"
exit 0

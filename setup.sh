#!/bin/sh
# Build the framework from files on disk only (offline): MIR dump + code generation, native replay binary,
# then the full translator/model validation (differential traces against the compiled crate).
cd "$(dirname "$0")" || exit 2
export CARGO_NET_OFFLINE=true
python3-vt - <<'PY'
import sys
sys.path.insert(0, '/verif')
from mirsym import build, difftest
mod, info = build.load_engine()
print('engine:', info)
rb = build.build_replay()
r = difftest.run(mod, rb, 3000, 12345)
if r['mismatches']:
    sc, d = r['mismatches'][0]
    print('SETUP FAILED: model/native mismatch', d)
    print(sc.to_text())
    sys.exit(1)
print('setup ok')
PY

#!/bin/sh
# usage: seeds_run.sh <seed-id>...   runs the check of the seed's own property against the seeded change (scratch worktree)
cd "$(dirname "$0")" || exit 2
for s in "$@"; do
    prop=${s%%-*}
    echo "== $s: $(./trymut.sh seeded/$s/patch.diff $prop 2>&1 | tr '\n' ' ' | cut -c1-300)"
done

//! Native replay: drives the *real* PPGEvaluator through its public API according to a scenario file and
//! writes a trace.  Used (a) to validate the MIR executor differentially and (b) to confirm every
//! counterexample before it is reported.  Needs `--cfg tyberiusprime_pypipegraph2_verif` (strategy plug-in).
use petgraph::Direction;
use pypipegraph2::verif_hooks::{job_id, EdgeInfo, JobOutputResult, NodeInfo};
use pypipegraph2::{JobKind, PPGEvaluator, PPGEvaluatorError, PPGEvaluatorStrategy};
use std::collections::{HashMap, HashSet};
use std::io::{BufRead, Write};
use std::panic::{catch_unwind, AssertUnwindSafe};

#[derive(Clone, Copy, PartialEq)]
enum Mode {
    Ident,
    Rel,
    Prod,
}

struct TableStrategy {
    present: HashSet<String>,
    classes: HashMap<String, String>,
    inputs: HashMap<String, String>,
    mode: Mode,
}

impl TableStrategy {
    fn class<'a>(&'a self, v: &'a str) -> &'a str {
        match self.classes.get(v) {
            Some(c) => c,
            None => v,
        }
    }
    /// consumer-dependent comparison: class of `v` as seen by downstream `d` (key "d\u{1}v"), falling back to the
    /// class of the whole value
    fn class_for<'a>(&'a self, u: &str, d: &str, v: &'a str) -> &'a str {
        // (producer, consumer, value) -> (producer, whole output, value) -> the value's own class -> the value
        if let Some(c) = self.classes.get(&format!("{}\u{2}{}\u{1}{}", u, d, v)) {
            return c;
        }
        if let Some(c) = self.classes.get(&format!("{}\u{2}!!!\u{1}{}", u, v)) {
            return c;
        }
        self.class(v)
    }
}

impl PPGEvaluatorStrategy for TableStrategy {
    fn output_already_present(&self, query: &str) -> bool {
        match self.mode {
            Mode::Prod => query.split(":::").all(|p| self.present.contains(p)),
            _ => self.present.contains(query),
        }
    }
    fn is_history_altered(&self, u: &str, d: &str, last: &str, cur: &str) -> bool {
        match self.mode {
            Mode::Ident => last != cur,
            Mode::Rel => self.class_for(u, d, last) != self.class_for(u, d, cur),
            Mode::Prod => {
                if last == cur {
                    false
                } else {
                    self.class(last) != self.class(cur)
                }
            }
        }
    }
    fn get_input_list(
        &self,
        node_idx: usize,
        dag: &petgraph::graphmap::GraphMap<usize, EdgeInfo, petgraph::Directed>,
        jobs: &[NodeInfo],
    ) -> String {
        if let Some(s) = self.inputs.get(job_id(&jobs[node_idx])) {
            return s.clone();
        }
        let mut names = Vec::new();
        for up in dag.neighbors_directed(node_idx, Direction::Incoming) {
            names.push(job_id(&jobs[up]));
        }
        names.sort();
        names.join("\n")
    }
}

fn unescape(s: &str) -> String {
    let mut out = String::new();
    let mut it = s.chars();
    while let Some(c) = it.next() {
        if c == '\\' {
            match it.next() {
                Some('n') => out.push('\n'),
                Some('t') => out.push('\t'),
                Some('\\') => out.push('\\'),
                Some(o) => {
                    out.push('\\');
                    out.push(o)
                }
                None => out.push('\\'),
            }
        } else {
            out.push(c)
        }
    }
    out
}

fn escape(s: &str) -> String {
    s.replace('\\', "\\\\").replace('\n', "\\n").replace('\t', "\\t")
}

fn sorted(s: HashSet<String>) -> String {
    let mut v: Vec<String> = s.into_iter().collect();
    v.sort();
    v.join(",")
}

fn states(dbg: &str) -> (String, String) {
    // "\nJobs: A(0): State\nB(1): State\n\n\nEdges:\n(A(0)->B(1): Unknown\n\n\nin code: ..."
    let jobs_part = dbg.split("\n\nEdges:\n").next().unwrap_or("");
    let jobs_part = jobs_part.trim_start_matches("\nJobs: ");
    let mut js = Vec::new();
    for line in jobs_part.lines() {
        if let Some(k) = line.rfind("): ") {
            let left = &line[..k];
            let state = &line[k + 3..];
            if let Some(p) = left.rfind('(') {
                js.push(format!("{}={}", &left[..p], state));
            }
        }
    }
    js.sort();
    let mut es = Vec::new();
    if let Some(rest) = dbg.split("\n\nEdges:\n").nth(1) {
        let edges_part = rest.split("\n\nin code:").next().unwrap_or("");
        for line in edges_part.lines() {
            // (A(0)->B(1): Unknown
            if let Some(k) = line.rfind("): ") {
                let req = &line[k + 3..];
                let body = &line[1..k];
                if let Some(arrow) = body.find(")->") {
                    let a = &body[..arrow];
                    let b = &body[arrow + 3..];
                    let a = &a[..a.rfind('(').unwrap_or(a.len())];
                    let b = &b[..b.rfind('(').unwrap_or(b.len())];
                    es.push(format!("{}>{}={}", a, b, req));
                }
            }
        }
    }
    es.sort();
    (js.join(";"), es.join(";"))
}

fn res_str(r: Result<(), PPGEvaluatorError>) -> String {
    match r {
        Ok(()) => "ok".to_string(),
        Err(PPGEvaluatorError::APIError(_)) => "err:APIError".to_string(),
        Err(PPGEvaluatorError::InternalError(m)) => format!("err:InternalError:{}", escape(&m)),
        Err(PPGEvaluatorError::EphemeralChangedOutput { .. }) => "err:EphemeralChangedOutput".to_string(),
    }
}

fn run_scenario(lines: &[String], out: &mut dyn Write) {
    let mut history: HashMap<String, String> = HashMap::new();
    let mut strat = TableStrategy {
        present: HashSet::new(),
        classes: HashMap::new(),
        inputs: HashMap::new(),
        mode: Mode::Ident,
    };
    let mut nodes: Vec<(String, JobKind)> = Vec::new();
    let mut edges: Vec<(String, String)> = Vec::new();
    let mut i = 0;
    while i < lines.len() {
        let f: Vec<&str> = lines[i].split('\t').collect();
        i += 1;
        match f[0] {
            "strategy" => {
                strat.mode = match f[1] {
                    "ident" => Mode::Ident,
                    "rel" | "reld" => Mode::Rel,
                    "prod" => Mode::Prod,
                    o => panic!("bad strategy {}", o),
                }
            }
            "hist" => {
                history.insert(unescape(f[1]), unescape(f[2]));
            }
            "present" => {
                strat.present.insert(unescape(f[1]));
            }
            "class" => {
                strat.classes.insert(unescape(f[1]), unescape(f[2]));
            }
            "inputs" => {
                strat.inputs.insert(unescape(f[1]), unescape(f[2]));
            }
            "node" => {
                let k = match f[2] {
                    "Always" => JobKind::Always,
                    "Output" => JobKind::Output,
                    "Ephemeral" => JobKind::Ephemeral,
                    o => panic!("bad kind {}", o),
                };
                nodes.push((unescape(f[1]), k));
            }
            "edge" => edges.push((unescape(f[1]), unescape(f[2]))),
            "events" => break,
            "" => {}
            o => panic!("bad setup line {}", o),
        }
    }
    let mut g = PPGEvaluator::new_with_history(history, strat);
    // declaration order as given: node/edge lines may be interleaved only as nodes-then-edges
    for (id, k) in nodes.iter() {
        g.add_node(id, *k);
    }
    for (d, u) in edges.iter() {
        g.depends_on(d, u);
    }
    let mut n = 0;
    while i < lines.len() {
        let f: Vec<&str> = lines[i].split('\t').collect();
        i += 1;
        if f[0].is_empty() {
            continue;
        }
        let mut extra = String::new();
        let r = catch_unwind(AssertUnwindSafe(|| match f[0] {
            "startup" => res_str(g.event_startup()),
            "run" => res_str(g.event_now_running(&unescape(f[1]))),
            "ok" => res_str(g.event_job_finished_success(&unescape(f[1]), unescape(f[2]))),
            "fail" => res_str(g.event_job_finished_failure(&unescape(f[1]))),
            "cleanup" => res_str(g.event_job_cleanup_done(&unescape(f[1]))),
            "abort" => res_str(g.abort_remaining()),
            "output" => match g.get_job_output(&unescape(f[1])) {
                JobOutputResult::Done(v) => format!("Done:{}", escape(&v)),
                JobOutputResult::NoSuchJob => "NoSuchJob".to_string(),
                JobOutputResult::NotDone => "NotDone".to_string(),
            },
            "history" => match g.new_history() {
                Ok(h) => {
                    let mut v: Vec<(String, String)> = h.into_iter().collect();
                    v.sort();
                    let mut s = String::new();
                    for (k, val) in v {
                        s.push_str(&format!("H\t{}\t{}\n", escape(&k), escape(&val)));
                    }
                    extra = s;
                    "ok".to_string()
                }
                Err(e) => res_str(Err(e)),
            },
            o => panic!("bad event {}", o),
        }));
        let res = match r {
            Ok(s) => s,
            Err(p) => {
                let msg = if let Some(s) = p.downcast_ref::<&str>() {
                    s.to_string()
                } else if let Some(s) = p.downcast_ref::<String>() {
                    s.clone()
                } else {
                    "?".to_string()
                };
                writeln!(out, "E\t{}\t{}\tpanic:{}", n, f[0], escape(&msg)).unwrap();
                return;
            }
        };
        let fin = catch_unwind(AssertUnwindSafe(|| g.is_finished()));
        let fin = match fin {
            Ok(b) => b,
            Err(_) => {
                writeln!(out, "E\t{}\t{}\tpanic:is_finished", n, f[0]).unwrap();
                return;
            }
        };
        let (js, es) = states(&g.debug_());
        writeln!(
            out,
            "E\t{}\t{}\t{}\tfin={}\tready={}\trunning={}\tcleanup={}\tfailed={}\tuf={}\tstates={}\tedges={}",
            n,
            f[0],
            res,
            if fin { 1 } else { 0 },
            sorted(g.query_ready_to_run()),
            sorted(g.query_jobs_running()),
            sorted(g.query_ready_for_cleanup()),
            sorted(g.query_failed()),
            sorted(g.query_upstream_failed()),
            js,
            es
        )
        .unwrap();
        out.write_all(extra.as_bytes()).unwrap();
        n += 1;
    }
}

fn main() {
    std::panic::set_hook(Box::new(|_| {}));
    let args: Vec<String> = std::env::args().collect();
    let f = std::fs::File::open(&args[1]).expect("scenario file");
    let rd = std::io::BufReader::new(f);
    let stdout = std::io::stdout();
    let mut out = std::io::BufWriter::new(stdout.lock());
    let mut cur: Vec<String> = Vec::new();
    let mut name: Option<String> = None;
    for line in rd.lines() {
        let line = line.unwrap();
        if let Some(rest) = line.strip_prefix("=== ") {
            if let Some(n) = name.take() {
                writeln!(out, "=== {}", n).unwrap();
                run_scenario(&cur, &mut out);
            }
            name = Some(rest.to_string());
            cur.clear();
        } else {
            cur.push(line);
        }
    }
    if let Some(n) = name.take() {
        writeln!(out, "=== {}", n).unwrap();
        run_scenario(&cur, &mut out);
    }
}

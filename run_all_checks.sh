#!/bin/sh
# run every claimed check's quick (or $1) command against /repo; used before committing evidence
cd "$(dirname "$0")" || exit 2
tier=${1:-quick}
rc=0
mkdir -p out
for p in $(python3 -c "import json;print(' '.join(c['property_id'] for c in json.load(open('MANIFEST.json'))['checks']))"); do
    ./check $p --tier $tier > out/check_$p.log 2>&1
    r=$?
    echo "$p rc=$r $(tail -1 out/check_$p.log)"
    [ $r -ne 0 ] && rc=1
done
exit $rc

#!/bin/sh
# usage: confirm_seed_head.sh <seed-id>...  -- re-confirm seeds against the CURRENT /repo HEAD (fix commits may have changed what a
# seeded change needs): suite with patch, demo with patch, demo without patch; one scratch worktree, removed afterwards
cd "$(dirname "$0")" || exit 2
wt=/tmp/verif_confirm_$$
git -C /repo worktree add --detach -f "$wt" HEAD >/dev/null 2>&1 || exit 2
export CARGO_TARGET_DIR=/tmp/verif_confirm_target CARGO_NET_OFFLINE=true
for s in "$@"; do
    sd=$(pwd)/seeded/$s
    ( cd "$wt" && git checkout -q -- . && if git apply "$sd/patch.diff" 2>/dev/null; then
        suite=$(cargo test --offline 2>&1 | grep -E "^test result" | head -1 | cut -c1-40)
        git apply "$sd/demo.diff" 2>/dev/null || echo "$s demo does not apply"
        name=$(grep -E "^\+\s*(pub )?fn " "$sd/demo.diff" | grep -oE "fn [a-zA-Z0-9_]+" | awk '{print $2}' | grep -E "^(test|seed)" | tail -1)
        with=$(cargo test --offline "$name" 2>&1 | grep -E "^test result" | head -1 | cut -c1-40)
        git checkout -q -- src/engine.rs src/lib.rs
        without=$(cargo test --offline "$name" 2>&1 | grep -E "^test result" | head -1 | cut -c1-40)
        echo "$s demo=$name | suite+patch: $suite | demo+patch: $with | demo alone: $without"
      else echo "$s patch does not apply to HEAD"; fi )
done
git -C /repo worktree remove --force "$wt" >/dev/null 2>&1; rm -rf "$wt"

#!/bin/sh
# usage: ./trymut.sh <patch-file> <prop> [<prop> ...]   -- apply a patch to a scratch worktree of /repo (never /repo itself),
# run the named checks (quick tier) against it, print rc per property, remove the worktree.
cd "$(dirname "$0")" || exit 2
VERIF=$(pwd)
patch=$(readlink -f "$1"); shift
tag=$(echo "$patch" | md5sum | cut -c1-8)
wt=/tmp/verif_mut_$$_$tag
git -C /repo worktree add --detach -f "$wt" HEAD >/dev/null 2>&1 || { echo "cannot create worktree"; exit 2; }
mkdir -p out
if ! git -C "$wt" apply "$patch"; then echo "patch does not apply"; git -C /repo worktree remove --force "$wt"; exit 2; fi
for prop in "$@"; do
    VERIF_REPO="$wt" ./check "$prop" --tier ${TIER:-quick} > "out/mut_${tag}_$prop.log" 2>&1
    rc=$?
    echo "$prop rc=$rc $(grep -c '^VIOLATION' out/mut_${tag}_$prop.log) violation lines; $(grep -m1 -A1 '^VIOLATION' out/mut_${tag}_$prop.log | tail -1 | cut -c1-200)"
    [ $rc -eq 2 ] && tail -3 "out/mut_${tag}_$prop.log"
done
git -C /repo worktree remove --force "$wt" >/dev/null 2>&1
rm -rf "$wt"

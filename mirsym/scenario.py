"""Concrete scenarios: text format shared with the native replay binary, mirsym-side concrete execution
producing the same trace format, and trace comparison."""
import os, subprocess, tempfile
from . import rt, models as M, engine_api as E
from .rt import RustPanic, Unsupported


def esc(s):
    return s.replace('\\', '\\\\').replace('\n', '\\n').replace('\t', '\\t')


def unesc(s):
    out = []
    i = 0
    while i < len(s):
        c = s[i]
        if c == '\\' and i + 1 < len(s):
            d = s[i + 1]
            out.append({'n': '\n', 't': '\t', '\\': '\\'}.get(d, '\\' + d))
            i += 2
        else:
            out.append(c)
            i += 1
    return ''.join(out)


class Scenario:
    def __init__(self, name='s', strategy='ident', hist=None, present=(), classes=None, inputs=None, nodes=(),
                 edges=(), events=()):
        self.name = name
        self.strategy = strategy
        self.hist = dict(hist or {})
        self.present = list(present)
        self.classes = dict(classes or {})
        self.inputs = dict(inputs or {})
        self.nodes = list(nodes)        # (id, kind)
        self.edges = list(edges)        # (downstream, upstream)
        self.events = list(events)      # tuples: ('startup',) ('run', j) ('ok', j, out) ('fail', j) ('cleanup', j)
        #                                         ('abort',) ('history',) ('output', j)

    def to_text(self):
        L = ['=== ' + self.name, 'strategy\t' + self.strategy]
        for k in sorted(self.hist):
            L.append('hist\t%s\t%s' % (esc(k), esc(self.hist[k])))
        for p in self.present:
            L.append('present\t' + esc(p))
        for k in sorted(self.classes):
            L.append('class\t%s\t%s' % (esc(k), esc(self.classes[k])))
        for k in sorted(self.inputs):
            L.append('inputs\t%s\t%s' % (esc(k), esc(self.inputs[k])))
        for n, k in self.nodes:
            L.append('node\t%s\t%s' % (esc(n), k))
        for d, u in self.edges:
            L.append('edge\t%s\t%s' % (esc(d), esc(u)))
        L.append('events')
        for ev in self.events:
            L.append('\t'.join([ev[0]] + [esc(x) for x in ev[1:]]))
        return '\n'.join(L) + '\n'

    def to_json(self):
        return {'name': self.name, 'strategy': self.strategy, 'hist': self.hist, 'present': self.present,
                'classes': self.classes, 'inputs': self.inputs, 'nodes': [list(n) for n in self.nodes],
                'edges': [list(e) for e in self.edges], 'events': [list(e) for e in self.events]}

    @staticmethod
    def from_json(j):
        return Scenario(j['name'], j['strategy'], j['hist'], j['present'], j['classes'], j['inputs'],
                        [tuple(n) for n in j['nodes']], [tuple(e) for e in j['edges']],
                        [tuple(e) for e in j['events']])


# ----------------------------------------------------------------------------- table strategy (pure python)
class StrategyTable:
    """mirror of the replay binary's TableStrategy for rel / prod modes and overridden input lists"""

    def __init__(self, mod, mode, present, classes, inputs):
        self.mod = mod
        self.mode = mode
        self.present = present
        self.classes = classes
        self.inputs = inputs
        self.name = 'S-' + mode

    def cls(self, v, key=None):
        if key is not None:
            from .sym import concrete_class
            return concrete_class(self.classes, key, v)
        return self.classes.get(v, v)

    def output_already_present(self, query):
        q = rt.D(query)
        if self.mode == 'prod':
            return all(p in self.present for p in q.split(':::'))
        return q in self.present

    def is_history_altered(self, up, down, last, cur):
        a = rt.D(last)
        b = rt.D(cur)
        if self.mode == 'ident':
            return a != b
        if self.mode in ('rel', 'reld'):
            key = rt.D(up) + '\x02' + rt.D(down)
            return self.cls(a, key) != self.cls(b, key)
        if a == b:
            return False
        return self.cls(a) != self.cls(b)

    def get_input_list(self, node_idx, dag, jobs):
        js = rt.D(jobs)
        jid = js.items[node_idx][0]
        if jid in self.inputs:
            return self.inputs[jid]
        g = rt.D(dag)
        names = sorted((js.items[u][0] for u in g.neighbors_directed(node_idx, M.INC)), key=lambda s: s.encode())
        return '\n'.join(names)


# ----------------------------------------------------------------------------- Debug rendering of engine states
def debug_enum(mod, ty, v):
    names = mod.ENUMS[ty]
    name = names[v[0]]
    pl = mod.ENUM_PAYLOADS[ty][v[0]]
    if not pl:
        return name
    return '%s(%s)' % (name, ', '.join(debug_enum(mod, t, x) for t, x in zip(pl, v[1:])))


def snapshot(mod, eng):
    ev = eng.value()
    F = mod.STRUCT_FIELDS['PPGEvaluator']
    jobs = ev[F.index('jobs')].items
    dag = ev[F.index('dag')]
    NF = mod.STRUCT_FIELDS['NodeInfo']
    js = sorted('%s=%s' % (j[NF.index('job_id')], debug_enum(mod, 'JobState', j[NF.index('state')])) for j in jobs)
    EF = mod.STRUCT_FIELDS['EdgeInfo']
    es = sorted('%s>%s=%s' % (jobs[a][0], jobs[b][0], debug_enum(mod, 'Required', dag.ew[(a, b)][EF.index('required')]))
                for (a, b) in dag.eorder)
    return ';'.join(js), ';'.join(es)


def res_str(f):
    try:
        f()
        return 'ok'
    except E.EngineError as e:
        if e.kind == 'InternalError':
            return 'err:InternalError:' + esc(rt.D(e.payload[0]))
        return 'err:' + e.kind


def make_engine(mod, sc):
    if sc.strategy == 'ident' and not sc.inputs:
        st = E.StrategyTest(mod, M.RHashSet({k: True for k in sc.present}))
    else:
        st = StrategyTable(mod, sc.strategy, set(sc.present), sc.classes, sc.inputs)
    eng = E.Engine(mod, st, M.RHashMap(dict(sc.hist)))
    for n, k in sc.nodes:
        eng.add_node(n, k)
    for d, u in sc.edges:
        eng.depends_on(d, u)
    return eng


def run_mirsym(mod, sc):
    """execute scenario concretely on the generated engine; returns trace lines (same format as native)"""
    out = ['=== ' + sc.name]
    rt.CTX.oracle = None
    eng = make_engine(mod, sc)
    n = 0
    for ev in sc.events:
        extra = []
        try:
            k = ev[0]
            if k == 'startup':
                res = res_str(eng.event_startup)
            elif k == 'run':
                res = res_str(lambda: eng.event_now_running(ev[1]))
            elif k == 'ok':
                res = res_str(lambda: eng.event_job_finished_success(ev[1], ev[2]))
            elif k == 'fail':
                res = res_str(lambda: eng.event_job_finished_failure(ev[1]))
            elif k == 'cleanup':
                res = res_str(lambda: eng.event_job_cleanup_done(ev[1]))
            elif k == 'abort':
                res = res_str(eng.abort_remaining)
            elif k == 'output':
                r = eng.get_job_output(ev[1])
                res = 'Done:' + esc(r[1]) if r[0] == 'Done' else r[0]
            elif k == 'history':
                try:
                    h = eng.new_history()
                    for key in sorted(h.d, key=lambda s: s.encode()):
                        extra.append('H\t%s\t%s' % (esc(key), esc(h.d[key])))
                    res = 'ok'
                except E.EngineError as e:
                    res = 'err:InternalError:' + esc(rt.D(e.payload[0])) if e.kind == 'InternalError' else 'err:' + e.kind
            else:
                raise ValueError('bad event %r' % (ev,))
        except RustPanic as p:
            out.append('E\t%d\t%s\tpanic:%s' % (n, ev[0], esc(p.msg)))
            return out
        try:
            fin = eng.is_finished()
        except RustPanic:
            out.append('E\t%d\t%s\tpanic:is_finished' % (n, ev[0]))
            return out
        js, es = snapshot(mod, eng)

        def srt(s):
            return ','.join(sorted(s, key=lambda x: x.encode()))
        out.append('E\t%d\t%s\t%s\tfin=%d\tready=%s\trunning=%s\tcleanup=%s\tfailed=%s\tuf=%s\tstates=%s\tedges=%s' % (
            n, ev[0], res, 1 if fin else 0, srt(eng.query_ready_to_run()), srt(eng.query_jobs_running()),
            srt(eng.query_ready_for_cleanup()), srt(eng.query_failed()), srt(eng.query_upstream_failed()), js, es))
        out.extend(extra)
        n += 1
    return out


def run_native(replay_bin, scenarios, timeout=600):
    """run scenarios through the replay binary; returns {name: [trace lines]}"""
    fd, path = tempfile.mkstemp(prefix='scn', suffix='.txt', dir=os.path.join(os.path.dirname(os.path.dirname(os.path.abspath(__file__))), '.scratch'))
    try:
        with os.fdopen(fd, 'w') as f:
            for sc in scenarios:
                f.write(sc.to_text())
        p = subprocess.run([replay_bin, path], stdout=subprocess.PIPE, stderr=subprocess.PIPE, text=True, timeout=timeout)
        if p.returncode != 0:
            raise RuntimeError('replay binary failed: rc=%d %s' % (p.returncode, p.stderr[-2000:]))
    finally:
        os.unlink(path)
    res = {}
    cur = None
    for line in p.stdout.split('\n'):
        if line.startswith('=== '):
            cur = [line]
            res[line[4:]] = cur
        elif line and cur is not None:
            cur.append(line)
    return res


DBG_MARK = '{:?}'


def _split_res(l):
    f = l.split('\t')
    if len(f) > 3 and f[0] == 'E':
        return f, f[3]
    return f, None


def diff_traces(a, b):
    """a: mirsym trace, b: native trace.  First differing line (index, a, b) or None.
    Panic / internal-error messages embed Debug renderings that the model marks with DBG_MARK instead of
    reproducing: such messages are compared up to the first marker only."""
    for i in range(max(len(a), len(b))):
        x = a[i] if i < len(a) else None
        y = b[i] if i < len(b) else None
        if x == y:
            continue
        if x is None or y is None:
            return (i, x, y)
        fx, rx = _split_res(x)
        fy, ry = _split_res(y)
        if rx is not None and ry is not None and rx.startswith(('panic:', 'err:InternalError:')):
            k = rx.find(DBG_MARK)
            if k >= 0:
                rx2, ry2 = rx[:k], ry[:k]
            else:
                rx2, ry2 = rx, ry
            # rust's assert! message has the source text; MIR has the same text but line breaks may differ
            if rx.startswith('panic:'):
                rx2 = ' '.join(rx2.replace('\\n', ' ').split())[:60]
                ry2 = ' '.join(ry2.replace('\\n', ' ').split())[:60]
            fx[3] = rx2
            fy[3] = ry2
            if fx == fy:
                continue
        return (i, x, y)
    return None

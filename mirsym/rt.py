"""Runtime for generated MIR code: references, panics, integer helpers, containers, decision oracle hook."""
import sys

sys.setrecursionlimit(200000)


class RustPanic(Exception):
    def __init__(self, msg, where=None):
        Exception.__init__(self, msg)
        self.msg = msg
        self.where = where


class Unsupported(Exception):
    """executed something the executor has no model for -> the run is inconclusive (exit 2)"""


class Diverged(Exception):
    pass


class StepBudget(Exception):
    pass


def unsupported(what):
    raise Unsupported(what)


def assert_fail(msg):
    raise RustPanic('MIR assert failed: ' + msg)


# ------------------------------------------------------------------ step accounting
class _Steps:
    total = 0
    budget = 10 ** 9
    event = 0


STEPS = _Steps()


def tick(n):
    STEPS.total += n
    STEPS.event += n
    if STEPS.event > STEPS.budget:
        raise StepBudget('per-event MIR block budget exceeded')


# ------------------------------------------------------------------ references
class RVec:
    """Vec / slice storage (identity object)"""
    __slots__ = ('items',)

    def __init__(self, items=None):
        self.items = items if items is not None else []

    def clone(self):
        return RVec(list(self.items))

    def __repr__(self):
        return 'RVec(%r)' % (self.items,)


def UPD(cur, path, i, v):
    """functional update of immutable tuples along path; containers with identity are updated in place"""
    if i == len(path):
        return v
    p = path[i]
    t = type(cur)
    if t is tuple:
        return cur[:p] + (UPD(cur[p], path, i + 1, v),) + cur[p + 1:]
    if t is RVec:
        cur.items[p] = UPD(cur.items[p], path, i + 1, v)
        return cur
    raise Unsupported('UPD through %r' % (t,))


def IDX(seq, i):
    if type(seq) is RVec:
        try:
            return seq.items[i]
        except IndexError:
            raise RustPanic('index out of bounds: the len is %d but the index is %d' % (len(seq.items), i))
    try:
        return seq[i]
    except IndexError:
        raise RustPanic('index out of bounds (array)')


class Ref:
    __slots__ = ('c', 'k', 'path')

    def __init__(self, c, k, path=()):
        self.c = c
        self.k = k
        self.path = path

    def get(self):
        v = self.c[self.k]
        for p in self.path:
            if type(v) is RVec:
                v = v.items[p]
            else:
                v = v[p]
        return v

    def set(self, val):
        if self.path:
            self.c[self.k] = UPD(self.c[self.k], self.path, 0, val)
        else:
            self.c[self.k] = val

    def setp(self, path, val):
        self.c[self.k] = UPD(self.c[self.k], self.path + path, 0, val)

    def sub(self, path):
        return Ref(self.c, self.k, self.path + path)

    def __repr__(self):
        return 'Ref(%r)' % (self.get(),)


def mkref(v):
    return Ref([v], 0, ())


def D(x):
    """deref all reference layers"""
    while type(x) is Ref:
        x = x.get()
    return x


_PROM = {}


def PROM(f):
    r = _PROM.get(f)
    if r is None:
        r = f()
        _PROM[f] = r
    return r


class FnItem:
    def __init__(self, name):
        self.name = name

    def __call__(self, *a):
        raise Unsupported('call of fn item ' + self.name)


# ------------------------------------------------------------------ integers
def ovf(op, a, b, bits, signed):
    if op == 'Add':
        r = a + b
    elif op == 'Sub':
        r = a - b
    else:
        r = a * b
    if signed:
        lo, hi = -(1 << (bits - 1)), (1 << (bits - 1)) - 1
    else:
        lo, hi = 0, (1 << bits) - 1
    if lo <= r <= hi:
        return (r, False)
    m = (1 << bits)
    w = r % m
    if signed and w > hi:
        w -= m
    return (w, True)


def divrem(op, a, b, bits, signed):
    if b == 0:
        raise RustPanic('attempt to divide by zero' if op == 'Div' else 'attempt to calculate the remainder with a divisor of zero')
    q = abs(a) // abs(b)
    if (a < 0) != (b < 0):
        q = -q
    r = a - q * b
    v = q if op == 'Div' else r
    return to_signed(v, bits) if signed else v & ((1 << bits) - 1)


def shift(op, a, b, bits, signed):
    b &= bits - 1
    v = (a << b) if op == 'Shl' else (a >> b)
    return to_signed(v, bits) if signed else v & ((1 << bits) - 1)


def cmp3(a, b):
    # core::cmp::Ordering { Less = -1, Equal = 0, Greater = 1 } (repr i8)
    return ((-1) & 0xff,) if a < b else ((1,) if a > b else (0,))


def wrap(op, a, b, bits, signed):
    return ovf(op, a, b, bits, signed)[0]


def to_signed(v, bits):
    v &= (1 << bits) - 1
    if v >> (bits - 1):
        v -= (1 << bits)
    return v


def seq_len(r):
    v = D(r)
    if type(v) is RVec:
        return len(v.items)
    return len(v)


# ------------------------------------------------------------------ opaque output values
class Out:
    """An output / history value the engine may only move, clone, compare and display.
    term is a hashable structural term (tuple); concrete strings are plain Python str instead."""
    __slots__ = ('term',)

    def __init__(self, term):
        self.term = term

    def __eq__(self, o):
        raise Unsupported('python-level == on symbolic Out value')

    def __hash__(self):
        return hash(self.term)

    def __repr__(self):
        return 'Out%r' % (self.term,)


# ------------------------------------------------------------------ decision oracle (set by the explorer)
class Context:
    """Per-execution context: strategy object, decision oracle."""
    strategy = None
    oracle = None        # object with decide(atom) -> bool ; atoms are hashable tuples
    state_hook = None    # callable(old JobState value, new JobState value) or None: write barrier on NodeInfo.state


CTX = Context()


def state_write(old, new):
    h = CTX.state_hook
    if h is not None:
        h(old, new)


def decide(atom):
    o = CTX.oracle
    if o is None:
        raise Unsupported('symbolic decision %r without oracle' % (atom,))
    return o.decide(atom)


def term_of(v):
    if type(v) is Out:
        return v.term
    if type(v) is str:
        return ('lit', v)
    raise Unsupported('term_of %r' % (type(v),))


def str_eq(a, b):
    a = D(a)
    b = D(b)
    ta = type(a)
    tb = type(b)
    if ta is str and tb is str:
        return a == b
    if (ta is str or ta is Out) and (tb is str or tb is Out):
        x = term_of(a)
        y = term_of(b)
        if x == y:
            return True
        if repr(y) < repr(x):
            x, y = y, x
        return decide(('eq', x, y))
    raise Unsupported('str_eq on %r / %r' % (ta, tb))


def strategy_call(method, strat_ref, *args):
    s = D(strat_ref)
    return getattr(s, method)(*args)


def call_closure(fn):
    def f(clo, argtuple):
        return fn(clo, *argtuple)
    return f

"""MIR text (rustc -Zunpretty=mir) -> small IR.

Only the grammar that actually occurs in the engine/strategy bodies is accepted; anything else
raises ParseError (the caller turns that into exit 2 "inconclusive", never into a pass).
"""
import re, collections


class ParseError(Exception):
    pass


def split_bodies(txt):
    return re.split(r'\n(?=(?:fn |const |static ))', txt)


PAIRS = {'(': ')', '[': ']', '{': '}'}


def match_close(s, i):
    """s[i] is an opening bracket; index of the matching close bracket."""
    j = i
    n = len(s)
    stack = []
    in_str = False
    while j < n:
        c = s[j]
        if in_str:
            if c == '\\':
                j += 2
                continue
            if c == '"':
                in_str = False
        else:
            if c == '"':
                in_str = True
            elif c in PAIRS:
                stack.append(PAIRS[c])
            elif c in ')]}':
                if not stack or stack[-1] != c:
                    raise ParseError('unbalanced at %d in %r' % (j, s))
                stack.pop()
                if not stack:
                    return j
        j += 1
    raise ParseError('no close in %r' % s)


def split_top(s, sep=','):
    """split on sep at bracket depth 0 (brackets (), [], {}, <>; '->' and strings respected)"""
    out = []
    depth = 0
    cur = []
    i = 0
    n = len(s)
    in_str = False
    angle = 0
    while i < n:
        c = s[i]
        if in_str:
            cur.append(c)
            if c == '\\':
                cur.append(s[i + 1])
                i += 2
                continue
            if c == '"':
                in_str = False
            i += 1
            continue
        if c == '"':
            in_str = True
            cur.append(c)
        elif c in '([{':
            depth += 1
            cur.append(c)
        elif c in ')]}':
            depth -= 1
            cur.append(c)
        elif c == '<':
            angle += 1
            cur.append(c)
        elif c == '>' and i > 0 and s[i - 1] != '-' and s[i - 1] != '=' and angle > 0:
            angle -= 1
            cur.append(c)
        elif c == sep and depth == 0 and angle == 0:
            out.append(''.join(cur).strip())
            cur = []
        else:
            cur.append(c)
        i += 1
    last = ''.join(cur).strip()
    if last:
        out.append(last)
    return out


# ------------------------------------------------------------------ places
def parse_place(s):
    s = s.strip()
    p, rest = _place(s, 0)
    if rest != len(s):
        raise ParseError('trailing in place %r at %d' % (s, rest))
    return p


def _place(s, i):
    if s[i] == '_':
        m = re.match(r'_(\d+)', s[i:])
        base = ('local', int(m.group(1)))
        i += m.end()
    elif s[i] == '(':
        j = match_close(s, i)
        inner = s[i + 1:j]
        if inner.startswith('*'):
            p, r = _place(inner, 1)
            if r != len(inner):
                raise ParseError('deref inner %r' % inner)
            base = ('deref', p)
        else:
            p, r = _place(inner, 0)
            rest = inner[r:]
            m = re.match(r'\.(\d+): ', rest)
            if m:
                base = ('field', p, int(m.group(1)), rest[m.end():])
            else:
                m = re.match(r' as (\w+)$', rest)
                if not m:
                    raise ParseError('paren place %r' % inner)
                base = ('downcast', p, m.group(1))
        i = j + 1
    elif s[i] == '*':
        p, r = _place(s, i + 1)
        return ('deref', p), r
    else:
        raise ParseError('place %r at %d' % (s, i))
    while i < len(s) and s[i] == '[':
        j = match_close(s, i)
        idx = s[i + 1:j]
        m = re.match(r'_(\d+)$', idx)
        if m:
            base = ('index', base, int(m.group(1)))
        else:
            m = re.match(r'(\d+) of (\d+)$', idx)
            if not m:
                raise ParseError('index %r' % idx)
            base = ('constindex', base, int(m.group(1)))
        i = j + 1
    return base, i


def parse_operand(s):
    s = s.strip()
    if s.startswith('copy '):
        return ('copy', parse_place(s[5:]))
    if s.startswith('move '):
        return ('move', parse_place(s[5:]))
    if s.startswith('const '):
        return ('const', parse_const(s[6:]))
    if re.match(r'[<\w]', s) and ('::' in s):
        return ('const', ('path', s))   # bare fn item
    raise ParseError('operand %r' % s)


def parse_const(s):
    s = s.strip()
    if s == 'true':
        return ('bool', True)
    if s == 'false':
        return ('bool', False)
    if s == '()':
        return ('unit',)
    m = re.match(r'(-?\d+)_([iu]\w+)$', s)
    if m:
        return ('int', int(m.group(1)), m.group(2))
    if s.startswith('"'):
        return ('str', eval_rust_str(s))
    if s.startswith('b"'):
        return ('bytes', eval_rust_bytes(s[1:]))
    m = re.match(r"'(.*)'$", s)
    if m:
        return ('char', m.group(1))
    m = re.match(r'ZeroSized: (.*)$', s)
    if m:
        return ('zst', m.group(1))
    return ('path', s)


def eval_rust_str(s):
    if not (s[0] == '"' and s[-1] == '"'):
        raise ParseError('string literal %r' % s)
    body = s[1:-1]
    out = []
    i = 0
    while i < len(body):
        c = body[i]
        if c == '\\':
            d = body[i + 1]
            simple = {'n': '\n', 't': '\t', 'r': '\r', '\\': '\\', '"': '"', "'": "'", '0': '\0'}
            if d in simple:
                out.append(simple[d])
                i += 2
            elif d == 'x':
                out.append(chr(int(body[i + 2:i + 4], 16)))
                i += 4
            elif d == 'u':
                j = body.index('}', i)
                out.append(chr(int(body[i + 3:j], 16)))
                i = j + 1
            else:
                raise ParseError('escape %r' % body[i:i + 4])
        else:
            out.append(c)
            i += 1
    return ''.join(out)


def eval_rust_bytes(s):
    return eval_rust_str(s).encode('latin-1')


BINOPS = {'Add', 'Sub', 'Mul', 'Div', 'Rem', 'Lt', 'Le', 'Gt', 'Ge', 'Eq', 'Ne', 'BitAnd', 'BitOr', 'BitXor',
          'Shl', 'Shr', 'AddWithOverflow', 'SubWithOverflow', 'MulWithOverflow', 'Offset', 'Cmp',
          'AddUnchecked', 'SubUnchecked'}
UNOPS = {'Not', 'Neg', 'PtrMetadata'}


def parse_rvalue(s):
    s = s.strip()
    if s.startswith(('copy ', 'move ', 'const ')):
        m = re.match(r'(.*) as (.*) \((\w+(?:\(.*\))?)\)$', s)
        if m and not s.startswith('const "'):
            try:
                return ('cast', parse_operand(m.group(1)), m.group(2), m.group(3))
            except ParseError:
                pass
        return ('use', parse_operand(s))
    if s.startswith('no_retag copy '):
        return ('use', ('copy', parse_place(s[len('no_retag copy '):])))
    if s.startswith('&raw const (fake) '):
        return ('ref', False, parse_place(s[len('&raw const (fake) '):]))
    if s.startswith('&raw const '):
        return ('ref', False, parse_place(s[len('&raw const '):]))
    if s.startswith('&raw mut '):
        return ('ref', True, parse_place(s[len('&raw mut '):]))
    if s.startswith('&mut '):
        return ('ref', True, parse_place(s[5:]))
    if s.startswith('&fake shallow '):
        return ('ref', False, parse_place(s[len('&fake shallow '):]))
    if s.startswith('&'):
        return ('ref', False, parse_place(s[1:]))
    if s.startswith('discriminant('):
        return ('discr', parse_place(s[len('discriminant('):-1]))
    m = re.match(r'(\w+)\(', s)
    if m and m.group(1) in BINOPS and s.endswith(')'):
        a, b = split_top(s[m.end():-1])
        return ('binop', m.group(1), parse_operand(a), parse_operand(b))
    if m and m.group(1) in UNOPS and s.endswith(')'):
        return ('unop', m.group(1), parse_operand(s[m.end():-1]))
    if s.startswith('(') and s.endswith(')'):
        return ('tuple', [parse_operand(x) for x in split_top(s[1:-1])])
    if s.startswith('[') and s.endswith(']'):
        inner = s[1:-1]
        if ';' in inner and not inner.startswith(('move', 'copy')):
            raise ParseError('repeat %r' % s)
        return ('array', [parse_operand(x) for x in split_top(inner)])
    # ADT aggregate: Path | Path(ops) | Path { f: op, .. }
    if s.endswith('}') and ' { ' in s:
        k = find_top(s, ' { ')
        if k is not None:
            path = s[:k]
            inner = s[k + 3:-2]
            fields = []
            for f in split_top(inner):
                name, val = f.split(': ', 1)
                fields.append((name, parse_operand(val)))
            return ('adt', path, fields, True)
    if s.endswith(')'):
        k = find_open_of_last(s)
        path = s[:k]
        inner = s[k + 1:-1]
        return ('adt', path, [(None, parse_operand(x)) for x in split_top(inner)], False)
    if re.match(r'[\w<{]', s):
        return ('adt', s, [], False)
    raise ParseError('rvalue %r' % s)


def find_top(s, needle):
    depth = 0
    i = 0
    angle = 0
    in_str = False
    while i < len(s):
        c = s[i]
        if in_str:
            if c == '\\':
                i += 2
                continue
            if c == '"':
                in_str = False
            i += 1
            continue
        if c == '"':
            in_str = True
            i += 1
            continue
        if s.startswith(needle, i) and depth == 0 and angle == 0:
            return i
        if c in '([{':
            depth += 1
        elif c in ')]}':
            depth -= 1
        elif c == '<':
            angle += 1
        elif c == '>' and s[i - 1] not in '-=' and angle > 0:
            angle -= 1
        i += 1
    return None


def find_open_of_last(s):
    depth = 0
    for i in range(len(s) - 1, -1, -1):
        c = s[i]
        if c in ')]}':
            depth += 1
        elif c in '([{':
            depth -= 1
            if depth == 0:
                return i
    raise ParseError('open of last %r' % s)


class Body:
    __slots__ = ('header', 'kind', 'name', 'args', 'ret', 'locals', 'blocks', 'closure_type', 'text_lines')


def parse_header(hdr, b):
    if hdr.startswith('fn '):
        b.kind = 'fn'
        k = hdr.index('(_') if '(_' in hdr else hdr.index('(')
        # first '(' that opens the parameter list: names never contain '(_' or '()'
        m = re.search(r'\((?=_\d+: |\) ->)', hdr)
        if not m:
            raise ParseError('fn header %r' % hdr)
        k = m.start()
        b.name = hdr[3:k]
        j = match_close(hdr, k)
        b.args = []
        for a in split_top(hdr[k + 1:j]):
            m2 = re.match(r'(?:mut )?_(\d+): (.*)$', a)
            if not m2:
                raise ParseError('fn arg %r in %r' % (a, hdr))
            b.args.append((int(m2.group(1)), m2.group(2)))
        b.ret = hdr[j + 1:].strip()
        b.closure_type = None
        if '{closure#' in b.name and b.args:
            m3 = re.search(r'\{closure@[^}]*\}', b.args[0][1])
            if m3:
                b.closure_type = m3.group(0)
    else:
        b.kind = 'const'
        m = re.match(r'(?:const|static) (?:mut )?(.*) = \{$', hdr)
        if not m:
            raise ParseError('const header %r' % hdr)
        k = find_top(m.group(1), ': ')
        if k is None:
            raise ParseError('const header %r' % hdr)
        b.name = m.group(1)[:k]
        b.args = []
        b.ret = m.group(1)[k + 2:]
        b.closure_type = None


def parse_body(text):
    lines = text.split('\n')
    hdr = lines[0]
    b = Body()
    b.header = hdr
    b.blocks = {}
    b.locals = {}
    parse_header(hdr, b)
    for n, t in b.args:
        b.locals[n] = t
    cur = None
    i = 1
    while i < len(lines):
        l = lines[i].strip()
        i += 1
        m = re.match(r'bb(\d+)(?: \(cleanup\))?: \{$', l)
        if m:
            cur = []
            b.blocks[int(m.group(1))] = cur
            continue
        if l == '}':
            if cur is not None:
                cur = None
            continue
        if cur is None:
            if l.startswith('alloc'):
                break
            m = re.match(r'let (?:mut )?_(\d+): (.*);$', l)
            if m:
                b.locals[int(m.group(1))] = m.group(2)
            continue
        if l.startswith('//') or not l:
            continue
        cur.append(parse_stmt(l))
    return b


NOPS = ('StorageLive', 'StorageDead', 'nop', 'FakeRead', 'PlaceMention', 'AscribeUserType', 'Retag', 'Coverage',
        'ConstEvalCounter', 'BackwardIncompatibleDropHint')


def parse_stmt(l):
    if not l.endswith(';'):
        raise ParseError('stmt without ; %r' % l)
    l = l[:-1]
    if l == 'return':
        return ('return',)
    if l == 'unreachable':
        return ('unreachable',)
    if l == 'resume':
        return ('resume',)
    if l.startswith('goto -> '):
        return ('goto', int(l[len('goto -> bb'):]))
    if l.startswith('falseEdge -> [real: bb') or l.startswith('falseUnwind -> [real: bb'):
        m = re.search(r'real: bb(\d+)', l)
        return ('goto', int(m.group(1)))
    if l.startswith('switchInt('):
        j = match_close(l, len('switchInt'))
        op = parse_operand(l[len('switchInt('):j])
        tg = l[j + 1:].strip()
        if not tg.startswith('-> ['):
            raise ParseError('switch %r' % l)
        arms = []
        for a in split_top(tg[4:-1]):
            k, v = a.split(': ')
            arms.append((None if k == 'otherwise' else int(k), int(v[2:])))
        return ('switch', op, arms)
    if l.startswith('assert('):
        j = match_close(l, len('assert'))
        inner = split_top(l[len('assert('):j])
        neg = inner[0].startswith('!')
        cond = parse_operand(inner[0][1:] if neg else inner[0])
        m = re.search(r'success: bb(\d+)', l[j:])
        return ('assert', cond, not neg, inner[1], int(m.group(1)))
    if l.startswith('drop('):
        j = match_close(l, len('drop'))
        m = re.search(r'return: bb(\d+)', l[j:])
        return ('drop', int(m.group(1)))
    if l.startswith(NOPS):
        return ('nop',)
    k = find_top(l, ' = ')
    if k is None:
        raise ParseError('stmt %r' % l)
    lhs = parse_place(l[:k])
    rhs = l[k + 3:]
    m = re.search(r' -> (\[return: bb(\d+), unwind[^\]]*\]|unwind [\w() ]+|bb(\d+))$', rhs)
    if m:
        callpart = rhs[:m.start()]
        ret = int(m.group(2)) if m.group(2) else None
        ko = find_open_of_last(callpart)
        callee = callpart[:ko]
        args = [parse_operand(a) for a in split_top(callpart[ko + 1:-1])]
        if callee.startswith(('move ', 'copy ')):
            callee = ('indirect', parse_operand(callee))
        return ('call', lhs, callee, args, ret)
    return ('assign', lhs, parse_rvalue(rhs))


def parse_all(txt, want):
    """want(header_line) -> bool. Returns (bodies, errors)."""
    bodies = []
    errors = []
    for t in split_bodies(txt):
        hdr = t.split('\n', 1)[0]
        if not hdr.startswith(('fn ', 'const ', 'static ')):
            continue
        if not want(hdr):
            continue
        try:
            bodies.append(parse_body(t))
        except ParseError as e:
            errors.append((hdr, str(e)))
    return bodies, errors

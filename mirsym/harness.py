"""Harness families: universe construction (which unknowns are symbolic) and graph enumeration."""
import itertools
from .rt import Out
from .explore import Universe

KINDS = ['Always', 'Output', 'Ephemeral']
NAMES = ['A', 'B', 'C', 'D', 'E', 'F']


def heval_universe(mod, nodes, edges, mode='ident', name='', stale=(), inputs=None):
    """H-EVAL: arbitrary well-formed history over the universe's keys.
    WF: H[j] present <=> H[j!!!] present (same presence atom)."""
    hist = {}
    present = {}
    for j, k in nodes:
        hist[j] = (Out(('h', j)), ('p', j))
        hist[j + '!!!'] = (Out(('hn', j)), ('p', j))
        if k == 'Output':
            if mode == 'prod':
                for part in j.split(':::'):
                    present[part] = ('present', part)
            else:
                present[j] = ('present', j)
    for d, u in edges:
        hist['%s!!!%s' % (u, d)] = (Out(('he', u, d)), ('pe', u, d))
    for key in stale:
        hist[key] = (Out(('hs', key)), ('ps', key))
    uni = Universe(mod, nodes, edges, mode, hist, present, name=name, inputs=inputs)
    # strengthened history invariant (inductive given the superseded-record filter of new_history, which the C18
    # obligations check on every returned history): once a job has records under its current id, no record of a
    # job whose id shares an output with it survives
    from . import sym as F
    axioms = []
    ids = set(j for j, _ in nodes)
    for j, _ in nodes:
        parts = set(j.split(':::'))
        for key in stale:
            a = key.split('!!!')[0]
            if a not in ids and parts & set(a.split(':::')):
                axioms.append(F.Not(F.And(F.Atom(('p', j)), F.Atom(('ps', key)))))
    uni.axioms = axioms
    return uni


def all_dags(n):
    """every edge subset over a fixed topological order (as the author's enumeration binaries do)"""
    pairs = [(a, b) for a in range(n) for b in range(a + 1, n)]
    for mask in range(1 << len(pairs)):
        yield [(NAMES[b], NAMES[a]) for k, (a, b) in enumerate(pairs) if mask >> k & 1]


def all_instances(n):
    for edges in all_dags(n):
        for kinds in itertools.product(KINDS, repeat=n):
            yield [(NAMES[i], kinds[i]) for i in range(n)], edges

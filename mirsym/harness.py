"""Harness families: universe construction (which unknowns are symbolic) and graph enumeration."""
import itertools
from .rt import Out
from .explore import Universe

KINDS = ['Always', 'Output', 'Ephemeral']
NAMES = ['A', 'B', 'C', 'D', 'E', 'F']


def heval_universe(mod, nodes, edges, mode='ident', name='', stale=(), inputs=None):
    """H-EVAL: arbitrary well-formed history over the universe's keys.
    WF: H[j] present <=> H[j!!!] present (same presence atom)."""
    hist = {}
    present = {}
    for j, k in nodes:
        hist[j] = (Out(('h', j)), ('p', j))
        hist[j + '!!!'] = (Out(('hn', j)), ('p', j))
        if k == 'Output':
            if mode == 'prod':
                for part in j.split(':::'):
                    present[part] = ('present', part)
            else:
                present[j] = ('present', j)
    for d, u in edges:
        hist['%s!!!%s' % (u, d)] = (Out(('he', u, d)), ('pe', u, d))
    for key in stale:
        hist[key] = (Out(('hs', key)), ('ps', key))
    uni = Universe(mod, nodes, edges, mode, hist, present, name=name, inputs=inputs)
    # strengthened history invariant (inductive given the superseded-record filter of new_history, which the C18
    # obligations check on every returned history): once a job has records under its current id, no record of a
    # job whose id shares an output with it survives
    from . import sym as F
    axioms = []
    ids = set(j for j, _ in nodes)
    for j, _ in nodes:
        parts = set(j.split(':::'))
        for key in stale:
            a = key.split('!!!')[0]
            if a not in ids and parts & set(a.split(':::')):
                axioms.append(F.Not(F.And(F.Atom(('p', j)), F.Atom(('ps', key)))))
    uni.axioms = axioms
    return uni


def make_universe(mod, nodes, edges, mode='ident', name='', stale=(), inputs=None, built=False):
    if built:
        return built_universe(mod, nodes, edges, mode, name=name)
    return heval_universe(mod, nodes, edges, mode, name=name, stale=stale, inputs=inputs)


def all_dags(n):
    """every edge subset over a fixed topological order (as the author's enumeration binaries do)"""
    pairs = [(a, b) for a in range(n) for b in range(a + 1, n)]
    for mask in range(1 << len(pairs)):
        yield [(NAMES[b], NAMES[a]) for k, (a, b) in enumerate(pairs) if mask >> k & 1]


def all_instances(n):
    for edges in all_dags(n):
        for kinds in itertools.product(KINDS, repeat=n):
            yield [(NAMES[i], kinds[i]) for i in range(n)], edges


def built_universe(mod, nodes, edges, mode='ident', name=''):
    """H-BUILT: the project was built completely and successfully before (every record present and consistent with
    the current graph); since then any result file may have been deleted (symbolic present-set) and every job that
    executes reports a fresh symbolic output (so "changed or not", per comparison, is decided by the solver).
    Cheap enough for 5-7 job graphs, where the full symbolic history of H-EVAL is out of reach."""
    hist = {}
    present = {}
    ups = {n: [] for n, _ in nodes}
    for d, u in edges:
        ups[d].append(u)
    for j, k in nodes:
        hist[j] = (Out(('h', j)), True)
        hist[j + '!!!'] = ('\n'.join(sorted(ups[j], key=lambda s: s.encode())), True)
        if k == 'Output':
            present[j] = ('present', j)
    for d, u in edges:
        hist['%s!!!%s' % (u, d)] = (Out(('h', u)), True)
    uni = Universe(mod, nodes, edges, mode, hist, present, name=name)
    uni.built = True
    return uni


def random_instance(rng, n, p_edge=0.35, weights=(0.2, 0.35, 0.45)):
    """random DAG on n jobs over a fixed topological order with a bias towards Ephemeral-rich, connected shapes"""
    while True:
        kinds = rng.choices(KINDS, weights=weights, k=n)
        names = ['J%d' % i for i in range(n)]
        edges = []
        deg = [0] * n
        for a in range(n):
            for b in range(a + 1, n):
                if rng.random() < p_edge:
                    edges.append((names[b], names[a]))
                    deg[a] += 1
                    deg[b] += 1
        if min(deg) == 0:
            continue
        if sum(1 for k in kinds if k == 'Ephemeral') < 2:
            continue
        rng.shuffle(edges)
        return [(names[i], kinds[i]) for i in range(n)], edges


def chain_family(max_nodes=7):
    """Shapes built around one dependency chain c1 -> c2 -> ... -> cL (L = 2..5; inner links Ephemeral or Output, the last
    one Output or Always), where every link may additionally have
       a side consumer (an Output job), the side consumer optionally with a trigger of its own, a side chain (an Ephemeral
       feeding an Output),
       or a trigger feeding the link itself (an extra upstream that is executed: Always, or an Output whose result may be missing).
    These are the situations the engine's on-demand logic is about: Ephemerals that are needed late (a trigger's output
    changes after the Ephemeral was judged unnecessary), validly skipped Outputs sitting between a failing Ephemeral and
    jobs further down, cleanup with several consumers.  Deterministic enumeration; yields (nodes, edges)."""
    out = []
    side_opts = ['-', 's', 'st', 't', 'sc']      # sc: a side chain link -> Ephemeral -> Output
    for L in (2, 3, 4, 5):
        for inner in itertools.product(['Ephemeral', 'Output'], repeat=L - 1):
            for last in ('Output', 'Always'):
                kinds = list(inner) + [last]
                if 'Ephemeral' not in kinds:
                    continue
                for sides in itertools.product(side_opts, repeat=L):
                    if sides[-1] in ('s', 'st', 'sc'):
                        continue        # a consumer of the last link is just a longer chain
                    n = L + sum({'-': 0, 's': 1, 'st': 2, 't': 1, 'sc': 2}[s] for s in sides)
                    if n > max_nodes or n < 4:
                        continue
                    for tk in ('Always', 'Output'):
                        if tk == 'Output' and not any('t' in s for s in sides):
                            continue
                        nodes = [('c%d' % (i + 1), kinds[i]) for i in range(L)]
                        edges = [('c%d' % (i + 1), 'c%d' % i) for i in range(1, L)]
                        for i, s in enumerate(sides):
                            c = 'c%d' % (i + 1)
                            if s == 't':
                                nodes.append(('t%d' % (i + 1), tk))
                                edges.append((c, 't%d' % (i + 1)))
                            elif s == 'sc':
                                nodes.append(('e%d' % (i + 1), 'Ephemeral'))
                                nodes.append(('o%d' % (i + 1), 'Output'))
                                edges.append(('e%d' % (i + 1), c))
                                edges.append(('o%d' % (i + 1), 'e%d' % (i + 1)))
                            elif s in ('s', 'st'):
                                nodes.append(('s%d' % (i + 1), 'Output'))
                                edges.append(('s%d' % (i + 1), c))
                                if s == 'st':
                                    nodes.append(('u%d' % (i + 1), tk))
                                    edges.append(('s%d' % (i + 1), 'u%d' % (i + 1)))
                        out.append((nodes, edges))
    return out

"""Counterexample handling: z3 model -> concrete scenario (strings), concrete re-run on the generated engine,
native replay on the real crate."""
import z3
from . import rt, scenario as S
from .rt import Out


def concretize(ex, viol):
    """returns Scenario for the violating path (single evaluation from a concrete history)"""
    st = viol.state
    z = ex.z
    uni = ex.uni
    pc = list(st.pc.items()) + list(viol.extra_pc or [])
    model = viol.model
    if model is None or viol.extra_pc:
        model = z.model_for(frozenset(pc))
    if model is None:
        raise rt.Unsupported('no model for counterexample path condition')

    def bval(atom, default=False):
        if atom is True:
            return True
        v = model.eval(z.formula(atom), model_completion=True)
        return z3.is_true(v)

    # ---- group terms by model value; literals keep their text
    val_name = {}
    cls_name = {}
    lit_of_val = {}
    for t, c in list(z.terms.items()):
        if t[0] == 'lit':
            lit_of_val[str(model.eval(c, model_completion=True))] = t[1]

    def sval(term):
        c = z.term(term)
        mv = str(model.eval(c, model_completion=True))
        if mv in lit_of_val:
            return lit_of_val[mv]
        if mv not in val_name:
            cv = str(model.eval(z.cls(c), model_completion=True))
            if cv not in cls_name:
                cls_name[cv] = 'c%d' % len(cls_name)
            val_name[mv] = '%s.t%d' % (cls_name[cv], len(val_name))
        return val_name[mv]

    hist = {}
    for k, (v, p) in uni.hist_spec.items():
        if bval(p):
            hist[k] = sval(rt.term_of(v)) if type(v) is Out else v
    present = [j for j, p in uni.present_spec.items() if bval(p)]
    events = []
    for action, result in st.path():
        if action[0] == 'ok':
            events.append(('ok', action[1], sval(ex.output_term(None, action[1]))))
        else:
            events.append(tuple(action))
    classes = {}
    if uni.mode != 'ident':
        # class of every concrete value used: literals get the class of their model value
        allvals = set(hist.values()) | set(e[2] for e in events if e[0] == 'ok')
        for t, c in list(z.terms.items()):
            pass
        for v in allvals:
            if '.t' in v and v.startswith('c'):
                classes[v] = v.split('.t')[0]
        # literals: class by model
        for t, c in list(z.terms.items()):
            if t[0] == 'lit' and t[1] in allvals:
                cv = str(model.eval(z.cls(c), model_completion=True))
                if cv in cls_name:
                    classes[t[1]] = cls_name[cv]
    mode = uni.mode
    sc = S.Scenario('cex_%s' % viol.prop, mode, hist, present, classes, dict(uni.inputs), uni.nodes, uni.edges, events)
    return sc


def describe(ex, viol):
    st = viol.state
    lines = ['property %s: %s' % (viol.prop, viol.what),
             'graph: nodes=%r edges(down,up)=%r mode=%s' % (ex.uni.nodes, ex.uni.edges, ex.uni.mode),
             'path: %r' % (st.path(),),
             'pc: %r' % (sorted(st.pc.items(), key=repr),)]
    return '\n'.join(lines)

"""Counterexample handling: z3 model -> concrete scenario (strings), concrete re-run on the generated engine,
native replay on the real crate."""
import z3
from . import rt, scenario as S
from .rt import Out


class Concretizer:
    """z3 model -> concrete strings, with one naming shared by all scenarios built from it"""

    def __init__(self, z, uni, model):
        self.z = z
        self.uni = uni
        self.model = model
        self.val_name = {}
        self.cls_name = {}
        self.lit_of_val = {}
        for t, c in list(z.terms.items()):
            if t[0] == 'lit':
                self.lit_of_val[str(model.eval(c, model_completion=True))] = t[1]

    def bval(self, atom):
        if atom is True:
            return True
        if atom is False:
            return False
        v = self.model.eval(self.z.formula(atom), model_completion=True)
        return z3.is_true(v)

    def sval(self, term):
        z = self.z
        model = self.model
        c = z.term(term)
        mv = str(model.eval(c, model_completion=True))
        if mv in self.lit_of_val:
            return self.lit_of_val[mv]
        if mv not in self.val_name:
            cv = str(model.eval(z.cls(c), model_completion=True))
            if cv not in self.cls_name:
                self.cls_name[cv] = 'c%d' % len(self.cls_name)
            self.val_name[mv] = '%s.t%d' % (self.cls_name[cv], len(self.val_name))
        return self.val_name[mv]

    def scenario(self, uni, path, name, output_term=None, outs=None):
        """uni: the universe whose declaration order / specs to use; path: [(action, result)]"""
        hist = {}
        for k, (v, p) in uni.hist_spec.items():
            if self.bval(p):
                hist[k] = self.sval(rt.term_of(v)) if type(v) is Out else v
        present = [j for j, p in uni.present_spec.items() if self.bval(p)]
        events = []
        for i, (action, result) in enumerate(path):
            if action[0] == 'ok':
                if outs is not None and outs[i] is not None:
                    t = outs[i]
                else:
                    t = output_term(action[1]) if output_term else ('o', action[1])
                events.append(('ok', action[1], self.sval(t)))
            else:
                events.append(tuple(action))
        classes = {}
        if uni.mode != 'ident':
            allvals = set(hist.values()) | set(e[2] for e in events if e[0] == 'ok')
            for v in allvals:
                if '.t' in v and v.startswith('c'):
                    classes[v] = v.split('.t')[0]
            for t, c in list(self.z.terms.items()):
                if t[0] == 'lit' and t[1] in allvals:
                    cv = str(self.model.eval(self.z.cls(c), model_completion=True))
                    if cv in self.cls_name:
                        classes[t[1]] = self.cls_name[cv]
        if uni.mode == 'reld':
            # what each consumer sees of each value: class of G_d(cls(v)) in the model
            allvals = set(hist.values()) | set(e[2] for e in events if e[0] == 'ok')
            val_term = {}
            for t, c in list(self.z.terms.items()):
                if t and t[0] not in ('cls', 'capp'):
                    try:
                        val_term.setdefault(self.sval(t), c)
                    except Exception:
                        pass
            pnames = {}
            # whole-output classes per producer, then what each (producer, consumer) pair sees of them
            for (kind, u), bf in [(k, f) for k, f in self.z.funcs.items() if isinstance(k, tuple) and len(k) == 2 and k[0] == 'B']:
                for v in allvals:
                    c = val_term.get(v)
                    if c is None:
                        continue
                    pv = str(self.model.eval(bf(c), model_completion=True))
                    classes[u + '\x02!!!\x01' + v] = pnames.setdefault(('B', u, pv), 'b%d' % len(pnames))
            for (kind, key), g in [(k, f) for k, f in self.z.funcs.items() if isinstance(k, tuple) and len(k) == 2 and k[0] == 'G']:
                u = key.split('\x02', 1)[0] if '\x02' in key else None
                base = self.z.cls if u is None else self.z.base_fn(u)
                for v in allvals:
                    c = val_term.get(v)
                    if c is None:
                        continue
                    pv = str(self.model.eval(g(base(c)), model_completion=True))
                    classes[key + '\x01' + v] = pnames.setdefault((key, pv), 'p%d' % len(pnames))
        return S.Scenario(name, uni.mode, hist, present, classes, dict(uni.inputs), uni.nodes, uni.edges, events)


def concretize(ex, viol):
    """returns Scenario for the violating path (single evaluation from a concrete history)"""
    st = viol.state
    z = ex.z
    pc = list(st.pc.items()) + list(viol.extra_pc or [])
    model = viol.model
    if model is None or viol.extra_pc:
        model = z.model_for(frozenset(pc))
    if model is None:
        raise rt.Unsupported('no model for counterexample path condition')
    c = Concretizer(z, ex.uni, model)
    return c.scenario(ex.uni, st.path(), 'cex_%s' % viol.prop, output_term=lambda j: ex.output_term(None, j), outs=st.path_outs())


def describe(ex, viol):
    st = viol.state
    lines = ['property %s: %s' % (viol.prop, viol.what),
             'graph: nodes=%r edges(down,up)=%r mode=%s' % (ex.uni.nodes, ex.uni.edges, ex.uni.mode),
             'path: %r' % (st.path(),),
             'pc: %r' % (sorted(st.pc.items(), key=repr),)]
    return '\n'.join(lines)

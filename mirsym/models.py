"""Library models: std collections/iterators/Option/Result/str/fmt/log and petgraph GraphMap, written against
their documented API.  Every function here is reachable only through modelmap.lookup (codegen time)."""
from .rt import (Ref, RVec, D, mkref, RustPanic, Unsupported, Out, str_eq, decide, term_of, UPD)
from . import rt

NONE = (0,)


def Some(v):
    return (1, v)


def Ok(v):
    return (0, v)


def Err(e):
    return (1, e)


# =========================================================================== Option / Result
def opt_unwrap(o):
    if o[0] == 0:
        raise RustPanic('called `Option::unwrap()` on a `None` value')
    return o[1]


def opt_expect(o, msg):
    if o[0] == 0:
        raise RustPanic(D(msg))
    return o[1]


def opt_is_some(r):
    return D(r)[0] == 1


def opt_is_none(r):
    return D(r)[0] == 0


def opt_as_ref(r):
    v = r.get()
    if v[0] == 0:
        return NONE
    return (1, r.sub((1,)))


def opt_cloned(o):
    if o[0] == 0:
        return NONE
    return (1, o[1].get())


def opt_ok_or_else(fn, byref):
    def f(o, clo):
        if o[0] == 1:
            return Ok(o[1])
        return Err(fn(mkref(clo) if byref else clo))
    return f


def opt_map_fnitem(o, f):
    if o[0] == 0:
        return NONE
    return (1, f(o[1]))


def res_unwrap(r):
    if r[0] == 1:
        raise RustPanic('called `Result::unwrap()` on an `Err` value: %r' % (r[1],))
    return r[1]


def res_expect(r, msg):
    if r[0] == 1:
        raise RustPanic('%s: %r' % (D(msg), r[1]))
    return r[1]


def try_branch(r):
    if r[0] == 0:
        return (0, r[1])            # ControlFlow::Continue(v)
    return (1, (1, r[1]))           # ControlFlow::Break(Err(e))


def from_residual(r):
    return (1, r[1])


def clone_deref(r):
    v = D(r)
    c = getattr(v, 'clone', None)
    if c is not None:
        return c()
    return v


def identity(x):
    return x


def ref_identity(r):
    return r


def deref_value(r):
    return D(r)


# =========================================================================== PartialEq on references / strings
def ref_eq(inner):
    def f(a, b):
        return inner(a.get(), b.get())
    return f


def ref_ne(inner):
    def f(a, b):
        return not inner(a.get(), b.get())
    return f


def s_eq(a, b):
    return str_eq(a, b)


def s_ne(a, b):
    return not str_eq(a, b)


def usize_eq(a, b):
    return D(a) == D(b)


# =========================================================================== iterators
class It:
    """base: next() returns an Option tuple"""

    def next(self):
        raise NotImplementedError

    def clone(self):
        raise Unsupported('clone of iterator')


class ListIt(It):
    """yields precomputed items"""
    __slots__ = ('items', 'i')

    def __init__(self, items):
        self.items = items
        self.i = 0

    def next(self):
        i = self.i
        if i >= len(self.items):
            return NONE
        self.i = i + 1
        return (1, self.items[i])

    def rev(self):
        return ListIt(list(reversed(self.items[self.i:])))


class SliceIt(It):
    """slice::Iter / IterMut: yields references to elements of an RVec or tuple held behind a Ref"""
    __slots__ = ('r', 'v', 'i', 'n')

    def __init__(self, r):
        self.r = r
        v = r.get()
        self.v = v
        self.i = 0
        self.n = len(v.items) if type(v) is RVec else len(v)

    def next(self):
        i = self.i
        if i >= self.n:
            return NONE
        self.i = i + 1
        v = self.v
        if type(v) is RVec:
            return (1, Ref(v.items, i, ()))
        return (1, self.r.sub((i,)))

    def rev(self):
        items = []
        while True:
            x = self.next()
            if x[0] == 0:
                break
            items.append(x[1])
        items.reverse()
        return ListIt(items)


class EnumIt(It):
    __slots__ = ('it', 'i')

    def __init__(self, it):
        self.it = it
        self.i = 0

    def next(self):
        x = self.it.next()
        if x[0] == 0:
            return NONE
        i = self.i
        self.i = i + 1
        return (1, (i, x[1]))


class MapIt(It):
    def __init__(self, it, fn, byref, clo):
        self.it = it
        self.fn = fn
        self.clo = [clo]
        self.byref = byref

    def next(self):
        x = self.it.next()
        if x[0] == 0:
            return NONE
        return (1, self.fn(Ref(self.clo, 0, ()) if self.byref else self.clo[0], x[1]))


class FilterIt(It):
    def __init__(self, it, fn, byref, clo):
        self.it = it
        self.fn = fn
        self.clo = [clo]
        self.byref = byref

    def next(self):
        while True:
            x = self.it.next()
            if x[0] == 0:
                return NONE
            if self.fn(Ref(self.clo, 0, ()) if self.byref else self.clo[0], mkref(x[1])):
                return x


class FilterMapIt(It):
    def __init__(self, it, fn, byref, clo):
        self.it = it
        self.fn = fn
        self.clo = [clo]
        self.byref = byref

    def next(self):
        while True:
            x = self.it.next()
            if x[0] == 0:
                return NONE
            y = self.fn(Ref(self.clo, 0, ()) if self.byref else self.clo[0], x[1])
            if y[0] == 1:
                return y


def it_next(r):
    return D(r).next()


def it_rev(it):
    return it.rev()


def it_enumerate(it):
    return EnumIt(it)


def it_map(fn, byref):
    return lambda it, clo: MapIt(it, fn, byref, clo)


def it_filter(fn, byref):
    return lambda it, clo: FilterIt(it, fn, byref, clo)


def it_filter_map(fn, byref):
    return lambda it, clo: FilterMapIt(it, fn, byref, clo)


def drain_py(it):
    out = []
    while True:
        x = it.next()
        if x[0] == 0:
            return out
        out.append(x[1])


def collect_vec(it):
    return RVec(drain_py(it))


def collect_hashset(it):
    s = RHashSet()
    for x in drain_py(it):
        s.insert(D(x) if type(x) is Ref else x)
    return s


def collect_hashmap(it):
    m = RHashMap()
    for kv in drain_py(it):
        if type(kv) is PresentItem:
            m.insert_with_presence(kv.k, kv.v, kv.pres)
        else:
            m.d[kv[0]] = kv[1]
    return m


def it_count(it):
    return len(drain_py(it))


def it_position(fn, byref):
    def f(itref, clo):
        it = itref.get()
        cell = [clo]
        i = 0
        while True:
            x = it.next()
            if x[0] == 0:
                return NONE
            if fn(Ref(cell, 0, ()) if byref else clo, x[1]):
                return (1, i)
            i += 1
    return f


def slice_iter(r):
    return SliceIt(r)


def range_next(r):
    start, end = r.get()
    if start < end:
        r.set((start + 1, end))
        return (1, start)
    return NONE


# =========================================================================== Vec / VecDeque
def vec_new():
    return RVec()


def vec_len(r):
    return len(D(r).items)


def vec_is_empty(r):
    return len(D(r).items) == 0


def vec_push(r, v):
    D(r).items.append(v)
    return ()


def vec_index(r, i):
    v = D(r)
    if i >= len(v.items):
        raise RustPanic('index out of bounds: the len is %d but the index is %d' % (len(v.items), i))
    return Ref(v.items, i, ())


def vec_into_iter(v):
    return ListIt(list(v.items))


def vec_retain(fn, byref):
    def f(r, clo):
        v = r.get()
        cell = [clo]
        keep = []
        for x in v.items:
            if fn(Ref(cell, 0, ()) if byref else clo, mkref(x)):
                keep.append(x)
        v.items[:] = keep
        return ()
    return f


def vecdeque_extend_vec(r, vec):
    D(r).items.extend(vec.items)
    return ()


def vecdeque_drain_full(r, _range):
    v = D(r)
    items = list(v.items)
    del v.items[:]
    return ListIt(items)


def slice_join(r, sep):
    v = D(r)
    items = v.items if type(v) is RVec else v
    parts = [D(x) for x in items]
    for p in parts:
        if type(p) is not str:
            raise Unsupported('join on non-concrete string')
    return D(sep).join(parts)


def slice_sort(r):
    v = D(r)
    keyed = [(D(x), x) for x in v.items]
    for k, _ in keyed:
        if type(k) is not str:
            raise Unsupported('sort on non-concrete string')
    keyed.sort(key=lambda t: t[0].encode('utf-8'))
    v.items[:] = [x for _, x in keyed]
    return ()


# =========================================================================== HashMap / HashSet
class PresentItem:
    """(key, value) pair of a drained history map whose presence is symbolic"""
    __slots__ = ('k', 'v', 'pres')

    def __init__(self, k, v, pres):
        self.k = k
        self.v = v
        self.pres = pres

    def __getitem__(self, i):
        return self.k if i == 0 else self.v


class RHashMap:
    """insertion-ordered map.  pres: key -> presence atom (hashable) for entries whose presence is symbolic
    (an entry with a symbolic presence is stored in d; a decision resolves it to present/absent)."""
    __slots__ = ('d', 'pres')

    def __init__(self, d=None, pres=None):
        self.d = d if d is not None else {}
        self.pres = pres

    def clone(self):
        return RHashMap(dict(self.d), dict(self.pres) if self.pres else None)

    def _resolve(self, k):
        """return True iff key present (deciding symbolic presence if necessary)"""
        if k not in self.d:
            return False
        if self.pres:
            a = self.pres.get(k)
            if a is not None:
                return decide(a)
        return True

    def insert_with_presence(self, k, v, pres):
        self.d[k] = v
        if pres is not None:
            if self.pres is None:
                self.pres = {}
            self.pres[k] = pres

    def get(self, k):
        if self._resolve(k):
            return (1, Ref(self.d, k, ()))
        return NONE

    def contains(self, k):
        return self._resolve(k)

    def insert(self, k, v):
        old = NONE
        if k in self.d:
            if self.pres and k in self.pres:
                # overwriting an entry whose presence is undetermined; the engine never uses the old value
                self.pres.pop(k)
                old = ('undetermined',)
            else:
                old = (1, self.d[k])
        self.d[k] = v
        return old

    def remove(self, k):
        if k not in self.d:
            return NONE
        if self.pres and k in self.pres:
            # removing an entry whose presence is undetermined: result unused by the engine -> no decision
            self.pres.pop(k)
            self.d.pop(k)
            return ('undetermined',)
        return (1, self.d.pop(k))


def key_of(x):
    k = D(x)
    if type(k) is not str and type(k) is not int:
        raise Unsupported('non-concrete map key %r' % (type(k),))
    return k


def hashmap_new():
    return RHashMap()


def hashmap_get(r, k):
    return D(r).get(key_of(k))


def hashmap_contains_key(r, k):
    return D(r).contains(key_of(k))


def hashmap_insert(r, k, v):
    return D(r).insert(key_of(k), v)


def hashmap_remove(r, k):
    return D(r).remove(key_of(k))


def hashmap_drain(r):
    m = D(r)
    items = []
    for k, v in m.d.items():
        p = m.pres.get(k) if m.pres else None
        if p is not None:
            items.append(PresentItem(k, v, p))
        else:
            items.append((k, v))
    m.d = {}
    m.pres = None
    return ListIt(items)


def hashmap_keys(r):
    m = D(r)
    keys = []
    for k in list(m.d.keys()):
        if m._resolve(k):
            keys.append(Ref(KeyCell(k), 0, ()))
    return ListIt(keys)


def KeyCell(k):
    return [k]


class RHashSet:
    __slots__ = ('d',)

    def __init__(self, d=None):
        self.d = d if d is not None else {}

    def clone(self):
        return RHashSet(dict(self.d))

    def insert(self, k):
        if k in self.d:
            return False
        self.d[k] = True
        return True


def hashset_new():
    return RHashSet()


def hashset_insert(r, v):
    return D(r).insert(key_of(v))


def hashset_contains(r, k):
    s = D(r)
    c = getattr(s, 'contains', None)
    if c is not None:
        return c(key_of(k))
    return key_of(k) in s.d


def hashset_remove(r, k):
    return D(r).d.pop(key_of(k), None) is not None


def hashset_iter(r):
    s = D(r)
    return ListIt([Ref([k], 0, ()) for k in s.d.keys()])


def hashset_intersection(a, b):
    sa = D(a)
    sb = D(b)
    return ListIt([Ref([k], 0, ()) for k in sa.d.keys() if k in sb.d])


# =========================================================================== str / String
def cstr(x):
    s = D(x)
    if type(s) is not str:
        raise Unsupported('string operation on non-concrete value %r' % (type(s),))
    return s


def str_to_string(r):
    return D(r)


def str_contains(r, pat):
    return cstr(pat) in cstr(r)


def str_ends_with(r, pat):
    return cstr(r).endswith(cstr(pat))


def str_is_empty(r):
    return len(cstr(r)) == 0


def str_split(r, pat):
    return ListIt([mkref(p) for p in cstr(r).split(cstr(pat))])


def str_split_once(r, pat):
    s = cstr(r)
    p = cstr(pat)
    i = s.find(p)
    if i < 0:
        return NONE
    return (1, (mkref(s[:i]), mkref(s[i + len(p):])))


def string_push_str(r, s):
    r.set(cstr(r) + cstr(s))
    return ()


def string_new():
    return ''


def cow_from_ref(r):
    return (0, r)       # Cow::Borrowed(&str)


def cow_deref(r):
    c = r.get()
    if c[0] == 0:
        return c[1]
    return r.sub((1,))


# =========================================================================== fmt / log
def fmt_display(r):
    return ('disp', r)


def fmt_debug(r):
    return ('dbg', r)


def fmt_args_new(template, args):
    return ('fmt', D(template), D(args))


def fmt_args_from_str(s):
    return ('fmtlit', D(s))


def render_display(v):
    v = D(v)
    if type(v) is str:
        return v
    if type(v) is Out:
        return '<%r>' % (v.term,)
    if type(v) is bool:
        return 'true' if v else 'false'
    if type(v) is int:
        return str(v)
    raise Unsupported('Display of %r' % (type(v),))


def render_debug(v):
    v = D(v)
    return '{:?}%r' % (v,)


def fmt_format(a):
    if a[0] == 'fmtlit':
        return a[1]
    t = a[1]
    args = a[2]
    out = []
    i = 0
    ai = 0
    n = len(t)
    while i < n:
        b = t[i]
        if b == 0:
            break
        if b < 0x80:
            out.append(t[i + 1:i + 1 + b].decode('utf-8'))
            i += 1 + b
        elif b == 0x80:
            ln = t[i + 1] | (t[i + 2] << 8)
            out.append(t[i + 3:i + 3 + ln].decode('utf-8'))
            i += 3 + ln
        elif b == 0xC0:
            kind, r = args[ai]
            ai += 1
            out.append(render_display(r) if kind == 'disp' else render_debug(r))
            i += 1
        else:
            raise Unsupported('fmt template byte 0x%02x' % b)
    return ''.join(out)


def log_max_level():
    return (0,)      # LevelFilter::Off: no logger installed


def level_le_filter(a, b):
    lv = D(a)[0]
    fl = D(b)[0]
    return lv <= fl


def log_private_api_log(*a):
    return ()


def begin_panic(msg):
    raise RustPanic(D(msg))


def panic_str(msg):
    raise RustPanic(D(msg))


def panic_fmt(a):
    raise RustPanic(fmt_format(a))


def assert_failed(kind, l, r, args):
    raise RustPanic('assertion `left %s right` failed: left=%r right=%r' % (kind, D(l), D(r)))


# =========================================================================== petgraph GraphMap<usize, E, Directed>
OUT = 0
INC = 1


class RGraph:
    """GraphMap: nodes = IndexMap<N, Vec<(N, dir)>>, edges = IndexMap<(N,N), E> (swap_remove semantics)"""
    __slots__ = ('order', 'adj', 'eorder', 'ew')

    def __init__(self):
        self.order = []      # node keys in IndexMap order
        self.adj = {}        # node -> list of (n, dir)
        self.eorder = []     # edge keys in IndexMap order
        self.ew = {}         # (a,b) -> weight

    def clone(self):
        g = RGraph()
        g.order = list(self.order)
        g.adj = {k: list(v) for k, v in self.adj.items()}
        g.eorder = list(self.eorder)
        g.ew = dict(self.ew)
        return g

    def add_node(self, n):
        if n not in self.adj:
            self.adj[n] = []
            self.order.append(n)
        return n

    def add_edge(self, a, b, w):
        if (a, b) in self.ew:
            old = self.ew[(a, b)]
            self.ew[(a, b)] = w
            return (1, old)
        self.ew[(a, b)] = w
        self.eorder.append((a, b))
        self.add_node(a)
        self.adj[a].append((b, OUT))
        if a != b:
            self.add_node(b)
            self.adj[b].append((a, INC))
        return NONE

    @staticmethod
    def _swap_remove(lst, idx):
        last = lst.pop()
        if idx < len(lst):
            lst[idx] = last

    def remove_node(self, n):
        if n not in self.adj:
            return False
        links = self.adj.pop(n)
        self._swap_remove(self.order, self.order.index(n))
        for succ, d in links:
            edge = (n, succ) if d == OUT else (succ, n)
            # remove_single_edge(&succ, &n, dir.opposite())
            sus = self.adj.get(succ)
            if sus is not None:
                target = (n, INC if d == OUT else OUT)
                if target in sus:
                    self._swap_remove(sus, sus.index(target))
            if edge in self.ew:
                del self.ew[edge]
                self._swap_remove(self.eorder, self.eorder.index(edge))
        return True

    def neighbors_directed(self, a, d):
        lst = self.adj.get(a)
        if lst is None:
            return []
        return [n for (n, dd) in lst if dd == d or n == a]

    def toposort(self):
        discovered = set()
        finished = set()
        finish_stack = []
        for i in self.order:
            if i in discovered:
                continue
            stack = [i]
            while stack:
                nx = stack[-1]
                if nx not in discovered:
                    discovered.add(nx)
                    for succ in self.neighbors_directed(nx, OUT):
                        if succ == nx:
                            return Err(('Cycle', nx))
                        if succ not in discovered:
                            stack.append(succ)
                else:
                    stack.pop()
                    if nx not in finished:
                        finished.add(nx)
                        finish_stack.append(nx)
        finish_stack.reverse()
        # cycle check as in petgraph: in topological order every predecessor must come earlier
        pos = {n: k for k, n in enumerate(finish_stack)}
        for (a, b) in self.eorder:
            if pos[a] >= pos[b]:
                return Err(('Cycle', b))
        return Ok(RVec(finish_stack))


def graph_new():
    return RGraph()


def graph_add_node(r, n):
    return D(r).add_node(n)


def graph_add_edge(r, a, b, w):
    return D(r).add_edge(a, b, w)


def graph_remove_node(r, n):
    return D(r).remove_node(n)


def graph_neighbors_directed(r, a, d):
    return ListIt(D(r).neighbors_directed(a, d[0]))


def graph_nodes(r):
    return ListIt(list(D(r).order))


def graph_all_edges(r):
    g = D(r)
    return ListIt([(a, b, Ref(g.ew, (a, b), ())) for (a, b) in g.eorder])


def graph_edge_weight(r, a, b):
    g = D(r)
    if (a, b) in g.ew:
        return (1, Ref(g.ew, (a, b), ()))
    return NONE


def graph_toposort(r, space):
    return D(r).toposort()


# =========================================================================== StrategyForTesting support (Rc<RefCell<HashSet>>)
def rc_deref(r):
    return r


def refcell_borrow(r):
    return r


def refcell_ref_deref(r):
    return r


def usize_ne(a, b):
    return D(a) != D(b)


from .models2 import *      # noqa: E402,F401,F403  (extended API models)

"""Generate /verif/MANIFEST.json from the property table (keeps commands, levels and not_applicable consistent)."""
import json, os, sys

VERIF = os.path.dirname(os.path.dirname(os.path.abspath(__file__)))

TECH_HEVAL = ('symbolic execution of the engine\'s MIR (regenerated from /repo on every run) with library models; z3 decides branch '
              'feasibility and every oracle obligation over symbolic history records / outputs / comparison relation; '
              'driver schedule, faults and abort points split exhaustively with state subsumption; counterexamples replayed on the compiled crate')

NOTE_HEVAL = ('Trusted: rustc MIR dump as semantics; hand-written std/petgraph models (differentially validated against the compiled crate on '
              'every run, the extended ones by the API zoo in setup); z3 (every n-th query re-decided by cvc5). Bounds (each listed universe explored '
              'completely; evidence repeats them): all graphs <=3 jobs from every well-formed symbolic history (H[j] present <=> H[j!!!] present, shown '
              'inductive) under string comparison and under an arbitrary, possibly consumer-dependent equivalence relation; sampled 4-job graphs from '
              'the same history; H-BUILT universes (completely built project, symbolic result presence / outputs): curated 4-7 job shapes, sampled '
              '(thorough: all) 4-job graphs and chain-family shapes up to 6 jobs. A counterexample counts only after it reproduces natively; whether '
              'its starting history can be produced by earlier evaluations is not searched (DESIGN.md section 14).')

CLAIMED = {
    'C19': ('H-SIZE', 'The engine\'s real MIR is executed at concrete large sizes (600 jobs quick, 4000 thorough; chain, layered, fan-out/fan-in; periodic kind patterns) through every named cascade shape: first build, up-to-date re-evaluation, single invalidation at either end (symbolic presence of the first/last result and symbolic new values, so z3 decides which cascades exist), root failure, abort. Every monitor of the single-evaluation harness runs at every step (no internal error incl. the depth guard, progress, report consistency, and the up-to-date / only-necessary-work oracles as z3 validity queries per job). Honest limit: the solver decides only a handful of atoms per run; what decides is executing the real code where an internal limit would bite.', '7.19'),
    'C01': ('H-IND', 'One inductive step of clean-build equivalence: job behaviours are uninterpreted functions of the consumed contents, the starting history and result files are arbitrary subject to the invariant Sound (a record is what its recorded inputs produce; an existing result of a job with a record has the recorded content); z3 decides on every completed path of one symbolic evaluation (all schedules, failure subsets, abort points) that Sound holds again for the returned history and the files, and on every failure-free path that each Output job\'s result equals the clean-build term. The step composes to chains of any length with arbitrary edits in between. A broken invariant is followed up by a second symbolic evaluation and reported only if that ends failure-free with a wrong result.', '5.4, 7.1'),
    'C02': ('H-EVAL', 'At every quiescent state of every explored path, each newly offered job is checked against the world model: upstream states, results present (solver-decided over the symbolic present-set), ephemeral upstreams executed and not yet offered for cleanup, get_job_output Done.', '7.2'),
    'C03': ('H-EVAL', 'For every completed path and every skipped non-exempt job the validity query `path condition => uptodate(job)` over symbolic records is discharged by z3 (all comparison relations at once under S-rel).', '7.3'),
    'C04': ('H-EVAL', 'For every completed path: executed <=> (Always or not up to date or consumed by an executed job), as validity queries per job; exempt ephemerals never started; with faults/abort: executed => required.', '7.4'),
    'C05': ('H-EVAL', 'Every quiescent state of every path: not finished => something ready or running; finished => nothing ready or running; every event terminates within a MIR step budget; every path ends.', '7.5'),
    'C06': ('H-EVAL', 'Every panic / InternalError site in the MIR is reachable-or-not decided on every path of the exploration; any reached one is a violation.', '7.6'),
    'C07': ('H-EVAL', 'Blocked-set monitor on every path with failures + validity queries for the failure-free twin of unaffected Always/Output jobs.', '7.7'),
    'C08': ('H-EVAL', 'Returned history of every completed path (symbolic presence and terms): failed / running-at-abort jobs have no own records, their incoming edge records are identical to the input history.', '7.8'),
    'C09': ('H-EVAL+H-RESUME', 'Job behaviours deterministic and the starting history Sound (as in C01). (a) returned history of every completed path: never-started upstream-failed/aborted jobs keep own and incoming-edge records (identical presence atoms and terms, modulo the comparison). (b) triple exploration: every interrupted evaluation E1 (any failure subset / abort point), failure-free resume E2 from the symbolic history E1 returned, and every uninterrupted evaluation U from the same start; z3 decides for each compatible (E2,U) pair that E2 executes nothing U does not, re-executes no Output that succeeded in E1, and returns U\'s history; a resumed evaluation that cannot complete (internal error, stall) is a violation.', '7.9, 14'),
    'C10': ('H-EVAL', 'Abort is explored at every quiescent state of every path (with every subset of running jobs failed first): result Ok, finished, nothing ready/running, history obtainable.', '7.10'),
    'C11': ('H-EVAL', 'Returned history vs reported outputs / consumed upstream outputs term by term; skipped jobs: validity query that each edge record matches the upstream\'s current output under the comparison.', '7.11'),
    'C12': ('H-EVAL2', 'Every failure-free first evaluation from every well-formed symbolic history is followed by a second evaluation from the symbolic history it returned (nothing changed; under a comparison coarser than string equality an Always job that runs again may report an equivalent but textually different value), all schedules: no Output job started, Ephemerals only for Always consumers, validity query H2 ~ H1 key by key; all single-evaluation oracles also run on the second evaluation. Universes include graph edits, renamed multi-output ids and the production input-name convention.', '7.12'),
    'C13': ('H-EVAL', 'Cleanup automaton per Ephemeral on every path, acknowledgement delay is a schedule choice.', '7.13'),
    'C16': ('H-EVAL', 'Every success event of a re-executed Ephemeral with a fresh symbolic output: error <=> validated and output judged altered, as validity queries; error only if inputs unchanged per reference.', '7.16'),
    'C14': ('H-ORDER', 'Failure-free evaluation explored under every interleaving / cleanup delay and under several declaration orders of nodes and edges; for every pair of completed paths with different outcome z3 decides whether one input (history, present set, outputs, comparison relation) admits both.', '7.14'),
    'C15': ('H-EVAL+H-ORDER', 'The C03/C04/C06/C07/C11/C16 oracles and the C14 pairwise check under S-reld (S-rel and S-prod added in thorough; the production-convention universes of H-HIST always): the comparison is an uninterpreted equivalence relation that may depend on whose output is compared and for which consumer (kernel of uninterpreted functions), so every obligation is decided for all comparison functions at once; only violations that do not also occur under plain string inequality are attributed to C15.', '7.15'),
    'C18': ('H-HIST+H-EVAL', 'Universes with symbolic stale records (absent jobs, removed dependencies, superseded multi-output ids incl. plain->multi and multi->plain, production input-name convention): per record of the input history a validity query decides kept-unchanged / dropped on every completed path (faults and aborts included); every returned key is in the input history or describes the current graph.', '7.18'),
    'C20': ('H-EVAL', 'At every distinct reachable engine state of the exploration every illegal call on every job (start, success, failure, cleanup acknowledgement, second startup) is executed on a copy: result must be APIError and the complete engine state (every field, incl. the signal queue and generation counter; the query results are functions of it) must be exactly unchanged. Which finish reports are illegal is decided by the record the driver keeps of the events it delivered, not by what the engine reports. Complete enumerations (<= 3 jobs): every distinct state; H-BUILT universes: every 8th.', '7.20'),
    'C17': ('H-EVAL', 'Report-consistency invariants at every quiescent state of every path (ready/running/failed/upstream-failed/cleanup/finished vs driver events and per-job states), and a write barrier on NodeInfo.state inside every call: each MIR assignment to a JobState place is checked for kind change, finished -> unfinished and success -> failed/upstream-failed/aborted at the instruction where it happens.', '7.17, 14'),
}


def main():
    ids = [json.loads(l)['id'] for l in open(os.path.join(VERIF, 'properties.jsonl'))]
    checks = []
    for pid in ids:
        if pid not in CLAIMED:
            continue
        fam, text, ref = CLAIMED[pid]
        checks.append({
            'property_id': pid,
            'quick_cmd': './check %s --tier quick' % pid,
            'thorough_cmd': './check %s --tier thorough' % pid,
            'evidence_file': '/verif/evidence/%s.json' % pid,
            'replay_cmd_template': './check %s --replay {path}' % pid,
            'engine': 'mirsym',
            'level_claimed': {'category': 'model_checking', 'text': text + ' Bounded (see level_note); within the bounds the verdict is the solver\'s, not sampling.', 'design_ref': 'DESIGN.md section ' + ref},
            'level_note': NOTE_HEVAL,
            'technique': TECH_HEVAL,
        })
    na = []
    reasons = json.load(open(os.path.join(VERIF, 'mirsym', 'not_applicable.json')))
    for pid in ids:
        if pid not in CLAIMED:
            na.append({'property_id': pid, 'reason': reasons.get(pid, 'check not implemented yet (build in progress)')})
    m = {
        'version': 1,
        'setup_cmd': './setup.sh',
        'hooks': {'guard': 'tyberiusprime_pypipegraph2_verif',
                  'enable': "RUSTFLAGS='--cfg tyberiusprime_pypipegraph2_verif' (only the native replay binary /verif/replay is built with it; the MIR route reads the unguarded build)",
                  'baseline_off_cmd': 'cd /repo && cargo test --workspace --no-fail-fast --offline',
                  'source_commits': ['4ce817b'], 'add_only': True},
        'engines': [{'name': 'mirsym', 'path': '/verif/mirsym', 'serves_properties': sorted(CLAIMED),
                     'kind_free_text': 'MIR-level symbolic executor (Python code generated from rustc\'s MIR dump) + z3 + native replay binary (/verif/replay)'}],
        'checks': checks,
        'not_applicable': na,
        'notes': 'Exit 2 of a check = inconclusive (never a pass): unsupported MIR construct, model/native disagreement, solver error, cap hit.',
    }
    json.dump(m, open(os.path.join(VERIF, 'MANIFEST.json'), 'w'), indent=1)
    print('wrote MANIFEST.json: %d checks, %d not_applicable' % (len(checks), len(na)))


if __name__ == '__main__':
    main()

"""Two-evaluation harnesses: H-EVAL2 (C12: re-evaluating an unchanged project does nothing) and H-RESUME
(C09: interrupted evaluations resume without loss and without excess).

The second evaluation starts from the *symbolic* history the first one returned (terms and undetermined presence
atoms carried over together with the path condition), so it covers every first evaluation at once."""
import time
from . import rt, sym as F, explore as X, monitors as Mo, harness as H, cex, order
from .rt import Out


def followup_universe(ex, st, name=''):
    """universe of the next evaluation after final state st (nothing else changed)"""
    uni = ex.uni
    h = st.hist
    hist = {}
    for k, v in h.d.items():
        p = h.pres.get(k) if h.pres else None
        hist[k] = (v, True if p is None else p)
    okd = st.dv.ok_dict()
    present = {}
    for j, kd in uni.nodes:
        if kd != 'Output':
            continue
        # the production strategy looks every output file (':::' part) of a job up separately
        parts = j.split(':::') if uni.mode == 'prod' else [j]
        for part in parts:
            if j in okd:
                present[part] = True
            elif j in st.dv.failed or j in st.dv.at_abort:
                present[part] = ('present2', part)      # a failed attempt may have removed, kept or garbled the result
            else:
                sp = uni.present_spec.get(part)
                if sp is not None:
                    present[part] = sp
    u2 = X.Universe(uni.mod, uni.nodes, uni.edges, uni.mode, hist, present, inputs=dict(uni.inputs), name=name or uni.name + '+1')
    u2.initial_pc = dict(st.pc)
    u2.prev = (ex, st)
    if getattr(uni, 'sem', None) is not None:
        # deterministic job behaviours (H-IND vocabulary): "nothing else changed" means the same behaviours and the same
        # Always outputs in the follow-up evaluation
        from . import ind
        u2.sem = uni.sem
        u2.evalno = uni.evalno
        u2.file0 = ind.files_after(uni, st)[0]        # what lies on disk after the evaluation that ended in st
        u2.axioms = list(getattr(uni, 'axioms', None) or [])
        ind.install_behaviour(u2)
    return u2


def final_key(st):
    h = st.hist
    hk = tuple(sorted((k, repr(Mo.h_entry(h, k)[0]), repr(rt.term_of(v))) for k, v in h.d.items()))
    return (frozenset(st.pc.items()), hk, st.dv.ok, st.dv.failed, st.dv.at_abort, st.dv.aborted)


class ReevalMonitor(X.Monitor):
    """C12 on the second evaluation"""
    props = ('C12',)

    def bind(self, ex):
        X.Monitor.bind(self, ex)
        self.obligations = 0
        self.discharged = 0

    def on_final(self, st):
        ex = self.ex
        uni = self.uni
        dv = st.dv
        if st.result != 'ok' or st.hist is None:
            return
        kind = uni.kind
        # which ephemerals may run: consumed by an Always job directly or through ephemerals
        allowed = {}
        for j in reversed(uni.topo_order()):
            if kind[j] == 'Always':
                allowed[j] = True
            elif kind[j] == 'Ephemeral':
                allowed[j] = any(kind[d] == 'Always' or (kind[d] == 'Ephemeral' and allowed[d]) for d in uni.downs[j])
            else:
                allowed[j] = False
        for j in sorted(dv.started):
            if kind[j] == 'Output':
                ex.report('C12', 're-evaluation of the unchanged project executed Output job %s' % j, st)
            elif not allowed[j]:
                ex.report('C12', 're-evaluation executed Ephemeral job %s that no Always job consumes' % j, st)
        if dv.failed:
            ex.report('C12', 're-evaluation of the unchanged project reported failures %s' % sorted(dv.failed), st)
        # H2 ~ H1
        prev_ex, prev_st = uni.prev
        f = order.differ_formula(uni, uni.mode, prev_st.hist, st.hist)
        self.obligations += 1
        ok, model = ex.z.valid_f(st.pc, st.fpc(), F.Not(f))
        if ok:
            self.discharged += 1
        else:
            ex.report('C12', 're-evaluation returned a history that differs from the one it started from', st, model=model)


_UNI_OF = {}


def _root(st):
    while st.parent is not None:
        st = st.parent
    return st


def st2_universe(st):
    s = st
    while s.parent is not None:
        s = s.parent
    return _UNI_OF[id(s)]


def run_reeval_instance(mod, nodes, edges, mode, deadline=None, max_first=2000, built=False, stale=(), inputs=None):
    """C12: returns (stats, violations)"""
    uni = H.make_universe(mod, nodes, edges, mode, built=built, stale=stale, inputs=inputs)
    ex1 = X.Explorer(uni, [], fail_actions=False, abort_actions=False)
    ex1.run(deadline=deadline)
    stats = {'states': ex1.n_states, 'transitions': ex1.n_transitions, 'events': ex1.n_events, 'finals': len(ex1.finals),
             'first_finals': 0, 'second_explorations': 0, 'obligations': 0, 'discharged': 0, 'capped': ex1.capped}
    if ex1.finals:
        _s = ex1.finals[0]
        stats['sample'] = {'path': [[list(a), r] for a, r in _s.path()], 'path_condition': [[repr(a), b] for a, b in sorted(_s.pc.items(), key=repr)][:40]}
    seen = set()
    viols = []
    for st in ex1.finals:
        if st.result != 'ok' or st.hist is None or st.dv.failed or st.eng.query_upstream_failed():
            continue
        k = final_key(st)
        if k in seen:
            continue
        seen.add(k)
        stats['first_finals'] += 1
        if stats['first_finals'] > max_first:
            stats['capped'] = True
            break
        u2 = followup_universe(ex1, st)
        if mode != 'ident':
            # "nothing changed" under a comparison coarser than string equality: an Always job that runs again may report a
            # textually different value that the comparison judges unaltered (a new timestamp on the same hash)
            okd1 = st.dv.ok_dict()

            def output_term(ex, s2, j, _k=uni.kind, _ok=okd1):
                return ('o2', j) if (_k[j] == 'Always' and j in _ok) else ('o', j)

            def output_assume(ex, s2, j, t, _k=uni.kind, _ok=okd1, _mode=mode):
                if _k[j] != 'Always' or j not in _ok or t == _ok[j]:
                    return []
                if _mode == 'reld':
                    return [('Rd', j + '\x02!!!', t, _ok[j])]
                return [('R', t, _ok[j])]
            u2.output_term = output_term
            u2.output_assume = output_assume
        rm = ReevalMonitor()
        ex2 = X.Explorer(u2, [Mo.SafetyMonitor(), Mo.OracleMonitor(), rm], fail_actions=False, abort_actions=False)
        ex2.z = ex1.z           # share declarations / caches: same terms
        ex2.run(deadline=deadline)
        stats['second_explorations'] += 1
        stats['states'] += ex2.n_states
        stats['transitions'] += ex2.n_transitions
        stats['events'] += ex2.n_events
        stats['finals'] += len(ex2.finals)
        stats['obligations'] += rm.obligations
        stats['discharged'] += rm.discharged
        stats['capped'] = stats['capped'] or ex2.capped
        for v in ex2.violations:
            if len(viols) >= 6:
                break
            try:
                pc = dict(v.state.pc)
                model = v.model or ex2.z.model_for(frozenset(pc.items()))
                c = cex.Concretizer(ex2.z, uni, model)
                sc1 = c.scenario(uni, st.path(), 'eval1', outs=st.path_outs())
                sc2 = c.scenario(u2, v.state.path(), 'eval2', outs=v.state.path_outs())
                # the second evaluation starts from what the first returned: filled in at replay time
                viols.append({'prop': v.prop, 'what': v.what, 'scenario': sc1.to_json(), 'scenario2': sc2.to_json(),
                              'depth': st.depth + v.state.depth, 'chain': True,
                              'pc': [[repr(a), b] for a, b in sorted(pc.items(), key=repr)]})
            except rt.Unsupported:
                pass
    stats['solver'] = ex1.z.stats.to_json()
    return stats, viols


def run_resume_instance(mod, nodes, edges, mode, deadline=None, max_first=20000, built=False):
    """C09(b): interrupted evaluation E1 (any failure subset / abort point), failure-free resume E2, compared with
    every uninterrupted evaluation U from the same start that the same input admits.  returns (stats, violations)

    Job behaviours are deterministic functions of the consumed contents and the starting history satisfies the invariant
    Sound (see ind.py): "nothing else changed" includes that a job re-executed on unchanged inputs produces what it produced
    before -- without this a re-executed Ephemeral could report a new value in the resumed evaluation only, which is the
    situation C16 rules out, not a resume defect."""
    from . import ind
    uni = ind.hind_universe(mod, nodes, edges, mode, built=built)
    ex1 = X.Explorer(uni, [])
    ex1.run(deadline=deadline)
    z = ex1.z
    stats = {'states': ex1.n_states, 'transitions': ex1.n_transitions, 'events': ex1.n_events, 'finals': len(ex1.finals),
             'interrupted_finals': 0, 'uninterrupted_finals': 0, 'second_explorations': 0, 'obligations': 0, 'discharged': 0,
             'pairs': 0, 'pairs_solver': 0, 'capped': ex1.capped}
    if ex1.finals:
        _s = ex1.finals[0]
        stats['sample'] = {'path': [[list(a), r] for a, r in _s.path()], 'path_condition': [[repr(a), b] for a, b in sorted(_s.pc.items(), key=repr)][:40]}
    outputs = [j for j, k in nodes if k == 'Output']
    U = {}
    I = {}
    for st in ex1.finals:
        if st.result != 'ok' or st.hist is None:
            continue
        k = final_key(st)
        clean = not (st.dv.failed or st.dv.aborted or st.eng.query_upstream_failed())
        (U if clean else I).setdefault(k, st)
    stats['uninterrupted_finals'] = len(U)
    Ulist = [(dict(s.pc), frozenset(s.pc.items()), s) for s in U.values()]
    viols = []

    def add_viol(what, st1, st2, stu, model, pcset):
        if len(viols) >= 6:
            return
        try:
            if model is None:
                model = z.model_for(pcset)
            c = cex.Concretizer(z, uni, model)
            v = {'prop': 'C09', 'what': what, 'scenario': c.scenario(uni, st1.path(), 'interrupted', outs=st1.path_outs()).to_json(),
                 'scenario2': c.scenario(st2_universe(st2), st2.path(), 'resume', outs=st2.path_outs()).to_json(), 'chain': True,
                 'depth': st1.depth + st2.depth, 'pc': [[repr(a), b] for a, b in sorted(pcset, key=repr)]}
            if stu is not None:
                v['scenario3'] = c.scenario(uni, stu.path(), 'uninterrupted', outs=stu.path_outs()).to_json()
            viols.append(v)
        except rt.Unsupported:
            pass

    for k, st1 in I.items():
        stats['interrupted_finals'] += 1
        if stats['interrupted_finals'] > max_first:
            stats['capped'] = True
            break
        u2 = followup_universe(ex1, st1)
        sm = Mo.SafetyMonitor()
        ex2 = X.Explorer(u2, [sm], fail_actions=False, abort_actions=False)
        ex2.z = z
        _UNI_OF.clear()
        ex2.run(deadline=deadline)
        # the resumed evaluation must be able to complete: an internal error, a panic or a stall in it is a resume defect
        for v in ex2.violations:
            if v.prop in ('C05', 'C06'):
                stats['obligations'] += 1
                _UNI_OF[id(_root(v.state))] = u2
                add_viol('the resumed evaluation cannot complete: %s' % v.what, st1, v.state, None, v.model, frozenset(v.state.pc.items()))
                break
        for f_ in ex2.finals[:1]:
            r_ = f_
            while r_.parent is not None:
                r_ = r_.parent
            _UNI_OF[id(r_)] = u2
        stats['second_explorations'] += 1
        stats['states'] += ex2.n_states
        stats['transitions'] += ex2.n_transitions
        stats['events'] += ex2.n_events
        stats['finals'] += len(ex2.finals)
        stats['capped'] = stats['capped'] or ex2.capped
        ok1 = set(st1.dv.ok_dict())
        seen2 = set()
        for st2 in ex2.finals:
            if st2.result != 'ok' or st2.hist is None:
                continue
            k2 = (frozenset(st2.pc.items()), st2.dv.started, st2.dv.failed)
            if k2 in seen2:
                continue
            seen2.add(k2)
            # (1) no Output job that already succeeded is executed again
            again = [j for j in st2.dv.started if j in ok1 and j in outputs]
            stats['obligations'] += 1
            if again:
                add_viol('resume re-executed Output job %s that had already succeeded before the interruption' % sorted(again),
                         st1, st2, None, None, frozenset(st2.pc.items()))
            else:
                stats['discharged'] += 1
            if st2.dv.failed or st2.eng.query_upstream_failed():
                continue
            pc2 = st2.pc
            f2 = frozenset(pc2.items())
            for pcu, fu, stu in Ulist:
                stats['pairs'] += 1
                if order.conflict(pc2, pcu):
                    continue
                joint = frozenset(f2 | fu)
                extra = [j for j in st2.dv.started if j not in stu.dv.started]
                exec_res = (ok1 | set(st2.dv.started)) & set(outputs)
                exec_u = set(stu.dv.started) & set(outputs)
                if extra:
                    f = F.TRUE
                    what = 'resume executed %s which the uninterrupted evaluation does not execute' % sorted(extra)
                elif exec_res != exec_u:
                    f = F.TRUE
                    what = 'outputs after resume differ from the uninterrupted evaluation: produced %s vs %s' % (sorted(exec_res), sorted(exec_u))
                else:
                    f = order.differ_formula(uni, mode, st2.hist, stu.hist)
                    what = 'history after the resumed evaluation differs from the uninterrupted evaluation'
                    if f is F.FALSE:
                        continue
                stats['pairs_solver'] += 1
                stats['obligations'] += 1
                model = z.check_formula(joint, z.to_z3(f), 'c09-pair')
                if model is None:
                    stats['discharged'] += 1
                    continue
                add_viol(what, st1, st2, stu, model, joint)
    stats['solver'] = z.stats.to_json()
    return stats, viols

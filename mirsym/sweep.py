"""Development / thorough-tier helper: run the H-EVAL monitors over a family of H-BUILT universes and print the
violation groups with their smallest witness.  usage: python3-vt -m mirsym.sweep chain7|chain6|n4|rand:<n>:<seed> [mode]"""
import sys, time, os, random
from multiprocessing import Pool
from . import build, harness as H, explore as X, runall

_mod = None


def _init():
    global _mod
    _mod, _ = build.load_engine(log=open(os.devnull, 'w'))


def _work(job):
    nodes, edges, mode = job
    t0 = time.time()
    uni = H.built_universe(_mod, nodes, edges, mode)
    ex = X.Explorer(uni, runall.make_monitors('H-EVAL'), max_states=400000)
    ex.run(deadline=t0 + 600)
    vs = {}
    for v in ex.violations:
        vs.setdefault((v.prop, runall.group_key(v.prop, v.what)), (v.what, v.state.path()))
    return (nodes, edges, mode, ex.n_states, ex.capped, vs, time.time() - t0)


def main(argv):
    what = argv[0]
    mode = argv[1] if len(argv) > 1 else 'ident'
    jobs = []
    if what.startswith('chain'):
        for nodes, edges in H.chain_family(int(what[5:])):
            jobs.append((nodes, edges, mode))
    elif what == 'n4':
        for nodes, edges in H.all_instances(4):
            jobs.append((nodes, edges, mode))
    else:
        _, n, seed = what.split(':')
        rng = random.Random(int(seed))
        for i in range(int(n)):
            nodes, edges = H.random_instance(rng, rng.choice([5, 6, 6, 7]))
            jobs.append((nodes, edges, mode))
    jobs.sort(key=lambda j: -len(j[0]))
    t0 = time.time()
    S = 0
    T = 0
    groups = {}
    with Pool(16, initializer=_init) as p:
        for r in p.imap_unordered(_work, jobs, chunksize=1):
            S += r[3]
            T += r[6]
            if r[4]:
                print('CAPPED', r[0], r[1])
            for k, (w, path) in r[5].items():
                g = groups.setdefault(k, [0, None])
                g[0] += 1
                if g[1] is None or len(r[0]) < len(g[1][0]):
                    g[1] = (r[0], r[1], w, path)
    print('universes', len(jobs), 'states', S, 'cpu %.0f' % T, 'wall %.0f' % (time.time() - t0))
    for k, g in sorted(groups.items()):
        print(g[0], k)
        print('    ', g[1])


if __name__ == '__main__':
    main(sys.argv[1:])

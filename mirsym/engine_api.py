"""Python driver-side view of the generated engine: the public API of PPGEvaluator, nothing else."""
from . import rt, models as M
from .rt import Ref, mkref, D, RustPanic

KIND = {'Always': 0, 'Output': 1, 'Ephemeral': 2}
KIND_NAMES = ['Always', 'Output', 'Ephemeral']
ERR_NAMES = ['APIError', 'EphemeralChangedOutput', 'InternalError']


class EngineError(Exception):
    """an Err(PPGEvaluatorError) returned by the engine"""

    def __init__(self, kind, payload):
        Exception.__init__(self, '%s%r' % (kind, payload))
        self.kind = kind
        self.payload = payload


def unwrap_result(r):
    if r[0] == 0:
        return r[1]
    e = r[1]
    raise EngineError(ERR_NAMES[e[0]], e[1:])


class SymSet(M.RHashSet):
    """already-present outputs; membership of names in `sym` is decided lazily by the oracle"""
    __slots__ = ('sym',)

    def __init__(self, d=None, sym=None):
        M.RHashSet.__init__(self, d)
        self.sym = sym if sym is not None else {}

    def clone(self):
        return SymSet(dict(self.d), dict(self.sym))

    def contains(self, k):
        if k in self.d:
            return True
        a = self.sym.get(k)
        if a is not None:
            return rt.decide(a)
        return False


class StrategyTest:
    """StrategyForTesting, executed from its real MIR (lib.rs impl PPGEvaluatorStrategy for StrategyForTesting)."""
    name = 'S-test'

    def __init__(self, mod, present):
        self.B = mod.BODIES
        self.present = present            # RHashSet / SymSet
        self.val = [(present,)]           # struct StrategyForTesting { already_done }
        self.pfx = '<StrategyForTesting as PPGEvaluatorStrategy>::'

    def clone(self, mod):
        return StrategyTest(mod, self.present.clone())

    def _self(self):
        return Ref(self.val, 0, ())

    def output_already_present(self, query):
        return self.B[self.pfx + 'output_already_present'](self._self(), query)

    def is_history_altered(self, up, down, last, cur):
        return self.B[self.pfx + 'is_history_altered'](self._self(), up, down, last, cur)

    def get_input_list(self, node_idx, dag, jobs):
        return self.B[self.pfx + 'get_input_list'](self._self(), node_idx, dag, jobs)

    def canon(self):
        return ('S-test', tuple(sorted(self.present.d)), tuple(sorted(getattr(self.present, 'sym', {}) or ())))


class Engine:
    def __init__(self, mod, strategy, history=None):
        self.mod = mod
        self.B = mod.BODIES
        self.strategy = strategy
        if history is None:
            history = M.RHashMap()
        self.cell = [self.B['PPGEvaluator::new_with_history'](history, strategy)]
        self.ref = Ref(self.cell, 0, ())

    # ---- construction
    def add_node(self, job_id, kind):
        self.B['PPGEvaluator::add_node'](self.ref, mkref(job_id), (KIND[kind],))

    def depends_on(self, downstream, upstream):
        self.B['PPGEvaluator::depends_on'](self.ref, mkref(downstream), mkref(upstream))

    # ---- events
    def event_startup(self):
        return unwrap_result(self.B['PPGEvaluator::event_startup'](self.ref))

    def event_now_running(self, job_id):
        return unwrap_result(self.B['PPGEvaluator::event_now_running'](self.ref, mkref(job_id)))

    def event_job_finished_success(self, job_id, output):
        return unwrap_result(self.B['PPGEvaluator::event_job_finished_success'](self.ref, mkref(job_id), output))

    def event_job_finished_failure(self, job_id):
        return unwrap_result(self.B['PPGEvaluator::event_job_finished_failure'](self.ref, mkref(job_id)))

    def event_job_cleanup_done(self, job_id):
        return unwrap_result(self.B['PPGEvaluator::event_job_cleanup_done'](self.ref, mkref(job_id)))

    def abort_remaining(self):
        return unwrap_result(self.B['PPGEvaluator::abort_remaining'](self.ref))

    # ---- queries
    def is_finished(self):
        return self.B['PPGEvaluator::is_finished'](self.ref)

    def _set(self, name):
        return set(self.B[name](self.ref).d.keys())

    def query_ready_to_run(self):
        return self._set('PPGEvaluator::query_ready_to_run')

    def query_jobs_running(self):
        return self._set('PPGEvaluator::query_jobs_running')

    def query_ready_for_cleanup(self):
        return self._set('PPGEvaluator::query_ready_for_cleanup')

    def query_failed(self):
        return self._set('PPGEvaluator::query_failed')

    def query_upstream_failed(self):
        return self._set('PPGEvaluator::query_upstream_failed')

    def get_job_output(self, job_id):
        r = self.B['PPGEvaluator::get_job_output'](self.ref, mkref(job_id))
        # enum JobOutputResult { Done(String), NoSuchJob, NotDone }
        return [('Done', r[1] if len(r) > 1 else None), ('NoSuchJob', None), ('NotDone', None)][r[0]]

    def new_history(self):
        """returns RHashMap (values may be Out terms, presence may be symbolic)"""
        return unwrap_result(self.B['PPGEvaluator::new_history'](self.ref))

    # ---- white-box reads used by monitors (the executor owns the state)
    def value(self):
        return self.cell[0]

"""Regenerate everything from /repo's current working tree: scratch copy -> MIR dump -> generated Python."""
import os, sys, subprocess, hashlib, shutil, importlib.util, time, fcntl

VERIF = os.path.dirname(os.path.dirname(os.path.abspath(__file__)))
REPO = os.environ.get('VERIF_REPO', '/repo')
CACHE = os.path.join(VERIF, '.cache')
SCRATCH = os.path.join(VERIF, '.scratch')
GUARD = 'tyberiusprime_pypipegraph2_verif'


class BuildError(Exception):
    pass


def tree_files(repo):
    out = []
    for base in ('src', 'benches', 'Cargo.toml', 'Cargo.lock'):
        p = os.path.join(repo, base)
        if os.path.isdir(p):
            for dp, dn, fn in os.walk(p):
                for f in sorted(fn):
                    out.append(os.path.join(dp, f))
        elif os.path.exists(p):
            out.append(p)
    return sorted(out)


def tree_hash(repo=REPO):
    h = hashlib.sha256()
    for f in tree_files(repo):
        h.update(os.path.relpath(f, repo).encode())
        h.update(b'\0')
        h.update(open(f, 'rb').read())
        h.update(b'\0')
    return h.hexdigest()[:16]


def copy_tree(repo, dst):
    if os.path.exists(dst):
        shutil.rmtree(dst)
    os.makedirs(dst)
    for f in tree_files(repo):
        rel = os.path.relpath(f, repo)
        d = os.path.join(dst, rel)
        os.makedirs(os.path.dirname(d), exist_ok=True)
        shutil.copy2(f, d)


class Lock:
    def __init__(self, name):
        os.makedirs(CACHE, exist_ok=True)
        self.path = os.path.join(CACHE, name + '.lock')

    def __enter__(self):
        self.f = open(self.path, 'w')
        fcntl.flock(self.f, fcntl.LOCK_EX)
        return self

    def __exit__(self, *a):
        fcntl.flock(self.f, fcntl.LOCK_UN)
        self.f.close()


def cargo_env(target):
    env = dict(os.environ)
    env['CARGO_NET_OFFLINE'] = 'true'
    env['CARGO_TARGET_DIR'] = target
    env.pop('RUSTFLAGS', None)
    return env


def dump_mir(th, log=sys.stderr):
    """returns (mir_text, src_root). Cached by tree hash."""
    os.makedirs(CACHE, exist_ok=True)
    mir_path = os.path.join(CACHE, 'mir', th + '.mir')
    src_root = os.path.join(CACHE, 'src', th)
    with Lock('mir'):
        if not (os.path.exists(mir_path) and os.path.isdir(src_root)):
            t0 = time.time()
            work = os.path.join(SCRATCH, 'mirsrc')     # fixed path: keeps cargo's fingerprints warm
            copy_tree(REPO, work)
            # make sure rustc really re-runs (cargo prints nothing on a fresh no-op)
            lib = os.path.join(work, 'src', 'lib.rs')
            os.utime(lib, None)
            cmd = ['cargo', '+nightly', 'rustc', '--offline', '--lib', '--', '-Zunpretty=mir',
                   '-C', 'debug-assertions=off', '-C', 'overflow-checks=on']
            p = subprocess.run(cmd, cwd=work, env=cargo_env(os.path.join(CACHE, 'mir-target')),
                               stdout=subprocess.PIPE, stderr=subprocess.PIPE, text=True)
            if p.returncode != 0 or 'fn ' not in p.stdout:
                raise BuildError('MIR dump failed:\n' + p.stderr[-3000:])
            os.makedirs(os.path.dirname(mir_path), exist_ok=True)
            if os.path.exists(src_root):
                shutil.rmtree(src_root)
            os.makedirs(os.path.dirname(src_root), exist_ok=True)
            shutil.copytree(work, src_root)
            with open(mir_path + '.tmp', 'w') as f:
                f.write(p.stdout)
            os.rename(mir_path + '.tmp', mir_path)
            print('[build] MIR dumped in %.1fs (%d lines)' % (time.time() - t0, p.stdout.count('\n')), file=log)
    return open(mir_path).read(), src_root


def framework_hash():
    h = hashlib.sha256()
    d = os.path.dirname(os.path.abspath(__file__))
    for f in ('mirparse.py', 'mir2py.py', 'modelmap.py'):
        h.update(open(os.path.join(d, f), 'rb').read())
    return h.hexdigest()[:8]


def load_engine(log=sys.stderr):
    """returns (module, info dict)"""
    if VERIF not in sys.path:
        sys.path.insert(0, VERIF)
    from mirsym import mir2py
    th = tree_hash()
    mir, src_root = dump_mir(th, log)
    mh = hashlib.sha256(mir.encode()).hexdigest()[:16]
    gen_dir = os.path.join(CACHE, 'gen')
    os.makedirs(gen_dir, exist_ok=True)
    name = 'engine_%s_%s' % (mh, framework_hash())
    path = os.path.join(gen_dir, name + '.py')
    with Lock('gen'):
        if not os.path.exists(path):
            t0 = time.time()
            code, g = mir2py.generate_module(mir, src_root)
            with open(path + '.tmp', 'w') as f:
                f.write(code)
            os.rename(path + '.tmp', path)
            print('[build] generated %s in %.1fs' % (name, time.time() - t0), file=log)
    spec = importlib.util.spec_from_file_location(name, path)
    mod = importlib.util.module_from_spec(spec)
    spec.loader.exec_module(mod)
    info = {'tree_hash': th, 'mir_hash': mh, 'mir_lines': mir.count('\n'), 'bodies': len(mod.BODIES),
            'gen_path': path, 'src_root': src_root}
    return mod, info


if __name__ == '__main__':
    m, info = load_engine()
    print(info)
    print('unsupported callees:', len(m.UNSUPPORTED_CALLEES))
    for c in m.UNSUPPORTED_CALLEES:
        print('   ', c)


def build_replay(log=sys.stderr, release=False):
    """build the native replay binary against a copy of /repo's working tree (hooks on); cached by tree hash"""
    th = tree_hash()
    prof = 'release' if release else 'debug'
    bin_dir = os.path.join(CACHE, 'replay-bin')
    os.makedirs(bin_dir, exist_ok=True)
    out = os.path.join(bin_dir, 'ppg2_replay_%s_%s_%s' % (th, prof, replay_src_hash()))
    with Lock('replay'):
        if not os.path.exists(out):
            t0 = time.time()
            work = os.path.join(SCRATCH, 'replaysrc')
            copy_tree(REPO, work)
            # copy2 keeps the source files' mtimes; cargo decides by mtime whether the path dependency changed, and a tree
            # that was built here before (e.g. a patched scratch worktree) can be *newer* than the one being built now
            for dp, dn, fn in os.walk(os.path.join(work, 'src')):
                for f in fn:
                    os.utime(os.path.join(dp, f), None)
            crate = os.path.join(VERIF, 'replay')
            shutil.copy2(os.path.join(REPO, 'Cargo.lock'), os.path.join(crate, 'Cargo.lock'))
            env = cargo_env(os.path.join(CACHE, 'replay-target'))
            env['RUSTFLAGS'] = '--cfg ' + GUARD
            cmd = ['cargo', 'build', '--offline'] + (['--release'] if release else [])
            p = subprocess.run(cmd, cwd=crate, env=env, stdout=subprocess.PIPE, stderr=subprocess.PIPE, text=True)
            if p.returncode != 0:
                raise BuildError('replay build failed:\n' + p.stderr[-4000:])
            shutil.copy2(os.path.join(CACHE, 'replay-target', prof, 'ppg2_replay'), out)
            print('[build] replay binary (%s) built in %.1fs' % (prof, time.time() - t0), file=log)
    return out


def replay_src_hash():
    h = hashlib.sha256()
    for f in ('src/main.rs', 'Cargo.toml'):
        h.update(open(os.path.join(VERIF, 'replay', f), 'rb').read())
    return h.hexdigest()[:8]

"""Run the harness families over their universes (in parallel), collect verdict material per property.

One exploration serves many properties: results are cached under .cache/results keyed by
(tree hash of /repo, framework hash, tier, seed) so that 20 check commands started on the same tree do one
exploration.  Nothing here decides pass/fail: that is check.py, after native replay."""
import os, sys, time, json, re, hashlib, collections, traceback, random
from multiprocessing import Pool

from . import build, explore as X, monitors as Mo, harness as H, cex, rt, sym

_MOD = None


def _init():
    global _MOD
    _MOD, _ = build.load_engine(log=open(os.devnull, 'w'))


def group_key(prop, what):
    w = re.sub(r"'[A-Z][A-Za-z0-9:!]*'", "'k'", what)
    w = re.sub(r"\b[A-F]\b", 'X', w)
    w = re.sub(r"\[[^\]]*\]", '[..]', w)
    w = re.sub(r"\{:\?\}.*$", '', w)
    w = re.sub(r"\d+", 'N', w)
    return '%s|%s' % (prop, w[:110])


def mon_stats(mons):
    d = {}
    for m in mons:
        if isinstance(m, Mo.MisuseMonitor):
            d['misuse_calls'] = m.calls
            d['misuse_engine_states'] = m.distinct
            d['misuse_engine_states_checked'] = getattr(m, 'checked', 0)
    return d


def make_monitors(family):
    return [Mo.SafetyMonitor(), Mo.OracleMonitor(), Mo.MisuseMonitor()]


def explore_order(job):
    from . import order
    t0 = time.time()
    out = {'name': job['name'], 'family': job['family'], 'mode': job['mode'], 'nodes': job['nodes'], 'edges': job['edges']}
    try:
        st, viols = order.run_instance(_MOD, [tuple(n) for n in job['nodes']], [tuple(e) for e in job['edges']], job['mode'],
                                       job.get('tier', 'quick'), job.get('seed', 0), deadline=job.get('deadline'),
                                       built=job.get('hist') == 'built')
        groups = {}
        for v in viols:
            gk = group_key('C14', v['what'])
            g = groups.setdefault(gk, {'prop': 'C14', 'count': 0, 'examples': []})
            g['count'] += 1
            v['universe'] = job['name']
            g['examples'].append(v)
        out.update({'ok': True, 'states': st['states'], 'transitions': st['transitions'], 'events': st['events'], 'forks': 0,
                    'finals': st['finals'], 'capped': st['capped'], 'solver': st['solver'], 'by_eval': 0,
                    'obligations': st['pairs'], 'discharged': st['pairs'] - len(viols), 'groups': groups,
                    'samples': [dict(st['sample'], universe=job['name'])] if st.get('sample') else [],
                    'mir_blocks': rt.STEPS.total, 'wall': time.time() - t0,
                    'mon_stats': {'orders': st['orders'], 'outcome_pairs': st['pairs'], 'pairs_sent_to_solver': st['pairs_solver'],
                                  'distinct_outcomes': st['outcomes']}})
    except rt.Unsupported as e:
        out.update({'ok': False, 'error': 'unsupported: %s' % str(e)[:300], 'trace': traceback.format_exc()[-1500:]})
    except Exception as e:
        out.update({'ok': False, 'error': '%s: %s' % (type(e).__name__, str(e)[:300]), 'trace': traceback.format_exc()[-1500:]})
    return out


def explore_chain(job):
    from . import chain
    t0 = time.time()
    out = {'name': job['name'], 'family': job['family'], 'mode': job['mode'], 'nodes': job['nodes'], 'edges': job['edges']}
    try:
        if job['family'] == 'H-IND':
            from . import ind
            st, viols = ind.run_c01_instance(_MOD, [tuple(n) for n in job['nodes']], [tuple(e) for e in job['edges']], job['mode'],
                                             deadline=job.get('deadline'), stale=job.get('stale', ()), built=job.get('hist') == 'built')
        else:
            if job['family'] == 'H-EVAL2':
                st, viols = chain.run_reeval_instance(_MOD, [tuple(n) for n in job['nodes']], [tuple(e) for e in job['edges']], job['mode'],
                                                      deadline=job.get('deadline'), built=job.get('hist') == 'built',
                                                      stale=job.get('stale', ()), inputs=job.get('inputs'))
            else:
                st, viols = chain.run_resume_instance(_MOD, [tuple(n) for n in job['nodes']], [tuple(e) for e in job['edges']], job['mode'],
                                                      deadline=job.get('deadline'), built=job.get('hist') == 'built')
        groups = {}
        for v in viols:
            gk = group_key(v['prop'], v['what'])
            g = groups.setdefault(gk, {'prop': v['prop'], 'count': 0, 'examples': []})
            g['count'] += 1
            v['universe'] = job['name']
            if len(g['examples']) < 2:
                g['examples'].append(v)
        ms = {k: st[k] for k in st if k in ('first_finals', 'second_explorations', 'interrupted_finals', 'uninterrupted_finals', 'pairs', 'pairs_solver',
                                           'unsound_finals', 'followups', 'followups_without_wrong_result')}
        out.update({'ok': True, 'states': st['states'], 'transitions': st['transitions'], 'events': st['events'], 'forks': 0,
                    'finals': st['finals'], 'capped': st['capped'], 'solver': st['solver'], 'by_eval': 0,
                    'obligations': st['obligations'], 'discharged': st['discharged'], 'groups': groups,
                    'samples': [dict(st['sample'], universe=job['name'])] if st.get('sample') else [],
                    'mir_blocks': rt.STEPS.total, 'wall': time.time() - t0, 'mon_stats': ms})
    except rt.Unsupported as e:
        out.update({'ok': False, 'error': 'unsupported: %s' % str(e)[:300], 'trace': traceback.format_exc()[-1500:]})
    except Exception as e:
        out.update({'ok': False, 'error': '%s: %s' % (type(e).__name__, str(e)[:300]), 'trace': traceback.format_exc()[-1500:]})
    return out


def explore_size(job):
    from . import size
    t0 = time.time()
    out = {'name': job['name'], 'family': job['family'], 'mode': 'ident', 'nodes': [], 'edges': []}
    try:
        n = job['n']
        st, viols = size.run_instance(_MOD, job['shape'], tuple(n) if isinstance(n, list) else n, tuple(job['pattern']), deadline=job.get('deadline'))
        groups = {}
        for v in viols:
            gk = group_key('C19', v['what'])
            g = groups.setdefault(gk, {'prop': 'C19', 'count': 0, 'examples': []})
            g['count'] += 1
            v['universe'] = job['name']
            if len(g['examples']) < 2:
                g['examples'].append(v)
        out.update({'ok': True, 'states': st['states'], 'transitions': st['transitions'], 'events': st['events'], 'forks': 0,
                    'finals': st['finals'], 'capped': st['capped'], 'solver': st['solver'], 'by_eval': 0,
                    'obligations': st['obligations'], 'discharged': st['discharged'], 'groups': groups,
                    'samples': [dict(st['sample'], universe=job['name'])] if st.get('sample') else [],
                    'mir_blocks': rt.STEPS.total, 'wall': time.time() - t0,
                    'mon_stats': {'evaluations': st['evaluations'], 'jobs_summed_over_universes': st['jobs']}})
    except rt.Unsupported as e:
        out.update({'ok': False, 'error': 'unsupported: %s' % str(e)[:300], 'trace': traceback.format_exc()[-1500:]})
    except Exception as e:
        out.update({'ok': False, 'error': '%s: %s' % (type(e).__name__, str(e)[:300]), 'trace': traceback.format_exc()[-1500:]})
    return out


def explore_universe(job):
    """worker: job = dict(family, nodes, edges, mode, name, deadline, opts)"""
    if job['family'] == 'H-SIZE':
        return explore_size(job)
    if job['family'] == 'H-ORDER':
        return explore_order(job)
    if job['family'] in ('H-EVAL2', 'H-RESUME', 'H-IND'):
        return explore_chain(job)
    t0 = time.time()
    out = {'name': job['name'], 'family': job['family'], 'mode': job['mode'], 'nodes': job['nodes'], 'edges': job['edges']}
    try:
        uni = H.make_universe(_MOD, [tuple(n) for n in job['nodes']], [tuple(e) for e in job['edges']], job['mode'],
                              name=job['name'], stale=job.get('stale', ()), inputs=job.get('inputs'), built=job.get('hist') == 'built')
        mons = make_monitors(job['family'])
        ex = X.Explorer(uni, mons, max_states=job.get('max_states', 400000))
        ex.run(deadline=job.get('deadline'))
        groups = {}
        for v in ex.violations:
            gk = group_key(v.prop, v.what)
            g = groups.setdefault(gk, {'prop': v.prop, 'count': 0, 'examples': []})
            g['count'] += 1
            if len(g['examples']) < 2 or v.state.depth < g['examples'][-1]['depth']:
                try:
                    sc = cex.concretize(ex, v)
                    exm = {'what': v.what, 'depth': v.state.depth, 'scenario': sc.to_json(),
                           'pc': [[repr(a), b] for a, b in sorted(v.state.pc.items(), key=repr)],
                           'universe': job['name']}
                    g['examples'].append(exm)
                    g['examples'].sort(key=lambda e: e['depth'])
                    del g['examples'][2:]
                except rt.Unsupported as e:
                    g.setdefault('concretize_errors', []).append(str(e)[:200])
        om = [m for m in mons if isinstance(m, Mo.OracleMonitor)]
        samples = []
        for st in ex.sample_paths[:1]:
            samples.append({'universe': job['name'], 'path': [[list(a), r] for a, r in st.path()],
                            'path_condition': [[repr(a), b] for a, b in sorted(st.pc.items(), key=repr)]})
        out.update({'ok': True, 'states': ex.n_states, 'transitions': ex.n_transitions, 'events': ex.n_events,
                    'forks': ex.n_forks, 'finals': len(ex.finals), 'capped': ex.capped,
                    'solver': ex.z.stats.to_json(), 'by_eval': ex.z.by_eval,
                    'obligations': sum(m.obligations for m in om), 'discharged': sum(m.discharged for m in om),
                    'groups': groups, 'samples': samples, 'mir_blocks': rt.STEPS.total, 'wall': time.time() - t0,
                    'mon_stats': dict(mon_stats(mons), state_writes_checked=getattr(ex, 'n_state_writes', 0))})
    except rt.Unsupported as e:
        out.update({'ok': False, 'error': 'unsupported: %s' % str(e)[:300], 'trace': traceback.format_exc()[-1500:]})
    except Exception as e:
        out.update({'ok': False, 'error': '%s: %s' % (type(e).__name__, str(e)[:300]), 'trace': traceback.format_exc()[-1500:]})
    return out


# ----------------------------------------------------------------------------- universes per tier
CURATED4 = [
    # R4 family: delayed ephemeral behind a validated ephemeral consumer, late invalidation
    ([('A', 'Ephemeral'), ('D', 'Ephemeral'), ('C', 'Always'), ('E', 'Output')], [('D', 'A'), ('E', 'D'), ('E', 'C')]),
    # R5 family: failure reaching a validly skipped output whose dependants are already on their way
    ([('A', 'Ephemeral'), ('B', 'Output'), ('C', 'Always'), ('D', 'Output')], [('B', 'A'), ('C', 'B'), ('D', 'C'), ('D', 'A')]),
    ([('A', 'Ephemeral'), ('B', 'Ephemeral'), ('C', 'Ephemeral'), ('D', 'Output')], [('B', 'A'), ('C', 'B'), ('D', 'C')]),
    ([('A', 'Output'), ('B', 'Ephemeral'), ('C', 'Ephemeral'), ('D', 'Output')], [('B', 'A'), ('C', 'B'), ('D', 'C')]),
    ([('A', 'Always'), ('B', 'Ephemeral'), ('C', 'Output'), ('D', 'Output')], [('B', 'A'), ('C', 'B'), ('D', 'B')]),
    ([('A', 'Ephemeral'), ('B', 'Ephemeral'), ('C', 'Output'), ('D', 'Output')], [('B', 'A'), ('C', 'B'), ('D', 'A')]),
]


# larger shapes (5-7 jobs), explored from a completely built project (H-BUILT): the situations in which defects were found
# that need more jobs than the complete enumerations reach (late requirement of an Ephemeral several levels up, failure
# reaching a delayed Ephemeral through a validly skipped Output, ...)
CURATED_L = [
    ([('W', 'Ephemeral'), ('X', 'Output'), ('E', 'Ephemeral'), ('D', 'Output'), ('A', 'Always'), ('Y', 'Output'), ('B', 'Always')],
     [('X', 'W'), ('E', 'X'), ('D', 'E'), ('D', 'A'), ('Y', 'W'), ('Y', 'B')]),
    ([('W', 'Ephemeral'), ('X', 'Output'), ('E', 'Ephemeral'), ('D', 'Output'), ('Y', 'Output'), ('B', 'Always')],
     [('X', 'W'), ('E', 'X'), ('D', 'E'), ('D', 'Y'), ('Y', 'W'), ('Y', 'B')]),
    ([('P', 'Ephemeral'), ('Q', 'Ephemeral'), ('R', 'Ephemeral'), ('A', 'Always'), ('X', 'Output'), ('S', 'Output')],
     [('Q', 'P'), ('S', 'P'), ('R', 'Q'), ('X', 'R'), ('X', 'A')]),
    ([('P', 'Ephemeral'), ('Q', 'Ephemeral'), ('A', 'Always'), ('F', 'Output'), ('X', 'Output'), ('Y', 'Output')],
     [('Q', 'P'), ('X', 'Q'), ('X', 'A'), ('Y', 'Q'), ('Y', 'F')]),
    ([('P', 'Ephemeral'), ('S', 'Output'), ('X', 'Output'), ('B', 'Always'), ('Y', 'Output'), ('A', 'Always')],
     [('S', 'P'), ('X', 'S'), ('X', 'B'), ('Y', 'P'), ('Y', 'A')]),
    ([('R', 'Output'), ('E', 'Ephemeral'), ('S', 'Output'), ('A', 'Always'), ('X', 'Always'), ('D', 'Always')],
     [('S', 'R'), ('S', 'E'), ('A', 'E'), ('D', 'S'), ('D', 'X')]),
    ([('E', 'Ephemeral'), ('S', 'Output'), ('A', 'Always'), ('X', 'Always'), ('D', 'Always'), ('G', 'Always')],
     [('S', 'E'), ('A', 'E'), ('D', 'S'), ('G', 'D'), ('G', 'X')]),
    ([('S', 'Output'), ('X', 'Ephemeral'), ('E', 'Ephemeral'), ('B', 'Output'), ('R', 'Output')],
     [('E', 'S'), ('E', 'X'), ('B', 'S'), ('B', 'E'), ('R', 'E')]),
    ([('E', 'Ephemeral'), ('B', 'Output'), ('D', 'Output'), ('A', 'Always'), ('C', 'Output')],
     [('B', 'E'), ('D', 'E'), ('D', 'A'), ('C', 'B')]),
    ([('A', 'Always'), ('T', 'Ephemeral'), ('B', 'Output'), ('D', 'Output')], [('B', 'A'), ('D', 'A'), ('B', 'T'), ('D', 'B')]),
    ([('T', 'Ephemeral'), ('B', 'Output'), ('C', 'Output'), ('X', 'Always')], [('B', 'T'), ('C', 'T'), ('C', 'X')]),
    ([('A', 'Always'), ('P', 'Ephemeral'), ('Q', 'Ephemeral'), ('X', 'Output'), ('Y', 'Output')], [('P', 'A'), ('Q', 'P'), ('X', 'Q'), ('Y', 'P')]),
    ([('E', 'Ephemeral'), ('D', 'Ephemeral'), ('A', 'Output'), ('B', 'Output'), ('X', 'Output'), ('Y', 'Output')],
     [('D', 'E'), ('X', 'D'), ('Y', 'D'), ('X', 'A'), ('Y', 'B')]),
    ([('P', 'Ephemeral'), ('Q', 'Ephemeral'), ('R', 'Ephemeral'), ('S', 'Ephemeral'), ('D', 'Output'), ('A', 'Always')],
     [('Q', 'P'), ('R', 'Q'), ('S', 'R'), ('D', 'S'), ('D', 'A')]),
]


def built_jobs(family, tier, seed, n4=0, chain=0, chain_max=6, rand=0, modes=('ident',), curated=True, curated_max=99):
    """H-BUILT universes: curated large shapes, plus seeded samples (quick) or complete enumerations (thorough) of
    all 4-job graphs, the chain family and random 5-7 job graphs"""
    rng = random.Random(1000003 * seed + 17)
    jobs = []
    def add(nodes, edges, tag):
        for mode in modes:
            jobs.append({'family': family, 'nodes': nodes, 'edges': edges, 'mode': mode, 'hist': 'built', 'tag': tag})
    if curated:
        for nodes, edges in CURATED_L:
            if len(nodes) <= curated_max:
                add(nodes, edges, 'L')
    inst4 = list(H.all_instances(4))
    if n4 < 0 or n4 >= len(inst4):
        sel = inst4
    else:
        sel = rng.sample(inst4, n4)
    for nodes, edges in sel:
        add(nodes, edges, 'n4')
    fam = H.chain_family(chain_max)
    if chain < 0 or chain >= len(fam):
        sel = fam
    else:
        # stratified by the number of Ephemerals (the on-demand logic is where the depth is): all shapes with >= 4, half
        # of the remaining budget on shapes with 3, the rest on shapes with 1-2
        neph = lambda nodes: sum(1 for _, k in nodes if k == 'Ephemeral')
        s4 = [x for x in fam if neph(x[0]) >= 4]
        s3 = [x for x in fam if neph(x[0]) == 3]
        s12 = [x for x in fam if neph(x[0]) <= 2]
        sel = list(s4[:chain])
        rest = max(0, chain - len(sel))
        sel += rng.sample(s3, min(len(s3), rest // 2))
        sel += rng.sample(s12, min(len(s12), chain - len(sel)))
    for nodes, edges in sel:
        add(nodes, edges, 'ch')
    for i in range(rand):
        nodes, edges = H.random_instance(rng, rng.choice([5, 6, 6, 7]))
        add(nodes, edges, 'rnd')
    return jobs


HIST_CASES = [
    # (nodes, edges, stale keys)
    ([('A', 'Output'), ('B', 'Output')], [('B', 'A')], ['Z', 'Z!!!', 'Z!!!B', 'A!!!Z']),
    ([('A', 'Ephemeral'), ('B', 'Output')], [('B', 'A')], ['Z', 'Z!!!', 'Z!!!B', 'A!!!Z']),
    ([('A', 'Output'), ('B', 'Output')], [], ['A!!!B', 'B!!!A']),
    ([('A', 'Always'), ('B', 'Ephemeral'), ('C', 'Output')], [('C', 'B')], ['A!!!B', 'A!!!C', 'Z!!!C']),
    ([('a:::b:::c', 'Output'), ('D', 'Output')], [('D', 'a:::b:::c')], ['a:::b', 'a:::b!!!', 'a:::b!!!D', 'X!!!a:::b']),
    ([('a:::b:::c', 'Ephemeral'), ('D', 'Output')], [('D', 'a:::b:::c')], ['a:::b', 'a:::b!!!', 'a:::b!!!D']),
    ([('a', 'Output'), ('D', 'Output')], [('D', 'a')], ['a:::b', 'a:::b!!!', 'a:::b!!!D']),
    ([('a:::b', 'Output'), ('D', 'Output')], [('D', 'a:::b')], ['a', 'a!!!', 'a!!!D']),
    ([('a:::b', 'Output'), ('D', 'Always')], [('D', 'a:::b')], ['a', 'a!!!', 'a!!!D', 'x:::y', 'x:::y!!!', 'x:::y!!!D']),
    ([('a:::b', 'Output')], [], ['b:::c', 'b:::c!!!', 'x:::y', 'x:::y!!!']),
    ([('a:::b', 'Output'), ('c', 'Output')], [], ['a:::b:::c', 'a:::b:::c!!!', 'b', 'b!!!', 'b!!!c']),
    # a dependency both of whose ends are absent from the current graph
    ([('A', 'Output'), ('B', 'Output')], [('B', 'A')], ['Y', 'Y!!!', 'Z', 'Z!!!', 'Y!!!Z', 'A!!!Z', 'Y!!!B']),
    ([('A', 'Ephemeral'), ('B', 'Always')], [('B', 'A')], ['Y', 'Y!!!', 'Z', 'Z!!!', 'Y!!!Z']),
]


PROD_CASES = [
    ([('a:::b:::c', 'Output'), ('D', 'Output')], [('D', 'a:::b:::c')], ['a:::b', 'a:::b!!!', 'a:::b!!!D'], {'D': 'a', 'a:::b:::c': ''}),
    ([('a', 'Output'), ('D', 'Output')], [('D', 'a')], ['a:::b', 'a:::b!!!', 'a:::b!!!D'], {'D': 'a', 'a': ''}),
    ([('a:::b', 'Ephemeral'), ('D', 'Output')], [('D', 'a:::b')], ['a', 'a!!!', 'a!!!D'], {'D': 'a', 'a:::b': ''}),
    ([('a:::b', 'Output'), ('c', 'Always'), ('D', 'Output')], [('D', 'a:::b'), ('D', 'c')], ['a', 'a!!!', 'a!!!D'], {'D': 'a\nc', 'a:::b': '', 'c': ''}),
]


def universes(family, tier, seed):
    if family == 'H-HIST':
        jobs = []
        for nodes, edges, stale in HIST_CASES:
            for mode in (['ident', 'rel'] if tier == 'thorough' else ['ident']):
                jobs.append({'family': 'H-HIST', 'nodes': nodes, 'edges': edges, 'mode': mode, 'stale': stale})
        # production convention: input names are the consumed *output* names, so a multi-output upstream that gains
        # or loses an unrelated output leaves its consumers' input-name lists unchanged
        for nodes, edges, stale, inputs in PROD_CASES:
            jobs.append({'family': 'H-HIST', 'nodes': nodes, 'edges': edges, 'mode': 'prod', 'stale': stale, 'inputs': inputs})
        for i, j in enumerate(jobs):
            j['name'] = 'h%d_%s_%s' % (i, j['mode'], '+'.join(n for n, _ in j['nodes']))
        return jobs
    if family == 'H-SIZE':
        K = {'A': 'Always', 'O': 'Output', 'E': 'Ephemeral'}
        jobs = []
        import itertools as _it
        for pat in _it.product('AOE', repeat=3):
            for shape, n in (('chain', 8), ('layers', [3, 3]), ('fan', 8)):
                jobs.append({'family': family, 'shape': shape, 'n': n, 'pattern': [K[c] for c in pat]})
        big = [('chain', 600, ['OOO', 'EEO', 'AOE', 'OEE', 'EOA']), ('chain', 2000, ['OOO', 'OEE']), ('layers', [20, 30], ['OOO', 'EOE', 'AEO']),
               ('fan', 600, ['OOO', 'AEO', 'EEO', 'OEO']),
               ('etail', [2, 48], ['OOO', 'AOO']), ('etail', [1, 600], ['OOO']), ('etail', [3, 20], ['OOO']),
               ('echain', 300, ['OOO']), ('elayers', [2, 48], ['OOO', 'AOO', 'OAO']), ('elayers', [3, 30], ['OOO', 'OAO'])]
        if tier == 'thorough':
            # 4000 jobs where the cascade resolves inside few calls (cheap in driver events); 1500 for the patterns in which every
            # third job is executed (2 driver events per executed job, each with whole-graph invariant checks: quadratic)
            big += [('chain', 4000, ['OOO']), ('layers', [40, 100], ['OOO']), ('fan', 4000, ['OOO']),
                    ('chain', 1500, ['EEO', 'AOE', 'OEE', 'EOA', 'AEO', 'OEO']), ('layers', [30, 50], ['EOE', 'AEO']), ('layers', [100, 12], ['OEO', 'AOE']),
                    ('fan', 1500, ['AEO', 'EEO']), ('echain', 1500, ['OOO']), ('elayers', [2, 200], ['OOO', 'OAO'])]
        for shape, n, pats in big:
            for pat in pats:
                jobs.append({'family': family, 'shape': shape, 'n': n, 'pattern': [K[c] for c in pat]})
        for i, j in enumerate(jobs):
            j['name'] = 'size%d_%s_%s_%s' % (i, j['shape'], j['n'], ''.join(k[0] for k in j['pattern']))
        jobs.sort(key=lambda j: -(j['n'] if isinstance(j['n'], int) else j['n'][0] * j['n'][1]))
        return jobs
    if family == 'H-IND':
        jobs = []
        for n in (1, 2, 3):
            for nodes, edges in H.all_instances(n):
                for mode in ('ident', 'rel'):
                    jobs.append({'family': family, 'nodes': nodes, 'edges': edges, 'mode': mode})
        for nodes, edges in CURATED4:
            for mode in (['ident', 'rel'] if tier == 'thorough' else ['ident']):
                jobs.append({'family': family, 'nodes': nodes, 'edges': edges, 'mode': mode})
        for nodes, edges, stale in HIST_CASES:
            jobs.append({'family': family, 'nodes': nodes, 'edges': edges, 'mode': 'ident', 'stale': stale})
        if tier == 'thorough':
            jobs += built_jobs(family, tier, seed, n4=-1, chain=-1, chain_max=6, rand=100)
        else:
            jobs += built_jobs(family, tier, seed, n4=300, chain=300, chain_max=6)
        for i, j in enumerate(jobs):
            j['name'] = 'ind%d_%s_%s' % (i, j['mode'], ''.join(k[0] for _, k in j['nodes']) + '_' + ''.join('%s%s' % (u, d) for d, u in j['edges']))
        jobs.sort(key=lambda j: -len(j['nodes']) * 10 - len(j['edges']))
        return jobs
    if family in ('H-EVAL2', 'H-RESUME'):
        jobs = []
        for n in (1, 2, 3):
            for nodes, edges in H.all_instances(n):
                # H-EVAL2 under the consumer-dependent comparison (which subsumes rel); H-RESUME under rel in thorough
                modes = (['ident', 'reld'] + (['rel'] if tier == 'thorough' else [])) if family == 'H-EVAL2' else (['ident', 'rel'] if tier == 'thorough' else ['ident'])
                for mode in modes:
                    jobs.append({'family': family, 'nodes': nodes, 'edges': edges, 'mode': mode})
        if family == 'H-EVAL2':
            for nodes, edges in CURATED4:
                jobs.append({'family': family, 'nodes': nodes, 'edges': edges, 'mode': 'ident'})
            # re-evaluation after graph edits: stale records, renamed multi-output ids, production input-name convention
            for nodes, edges, stale in HIST_CASES:
                jobs.append({'family': family, 'nodes': nodes, 'edges': edges, 'mode': 'ident', 'stale': stale})
            for nodes, edges, stale, inputs in PROD_CASES:
                jobs.append({'family': family, 'nodes': nodes, 'edges': edges, 'mode': 'prod', 'stale': stale, 'inputs': inputs})
            if tier == 'thorough':
                jobs += built_jobs(family, tier, seed, n4=-1, chain=-1, chain_max=6, rand=100)
            else:
                jobs += built_jobs(family, tier, seed, n4=200, chain=120, chain_max=6)
        else:
            if tier == 'thorough':
                jobs += built_jobs(family, tier, seed, n4=600, chain=200, chain_max=6)
            else:
                jobs += built_jobs(family, tier, seed, n4=40, chain=0, curated_max=5)
        for i, j in enumerate(jobs):
            j['name'] = '%s%d_%s_%s' % (family[2:].lower(), i, j['mode'], ''.join(k[0] for _, k in j['nodes']) + '_' + ''.join('%s%s' % (u, d) for d, u in j['edges']))
        jobs.sort(key=lambda j: -len(j['nodes']) * 10 - len(j['edges']))
        return jobs
    if family == 'H-ORDER':
        jobs = []
        for n in (1, 2, 3):
            for nodes, edges in H.all_instances(n):
                for mode in (['ident', 'rel', 'reld', 'prod'] if tier == 'thorough' else ['ident', 'reld']):
                    jobs.append({'family': 'H-ORDER', 'nodes': nodes, 'edges': edges, 'mode': mode, 'tier': tier, 'seed': seed})
        for nodes, edges in CURATED4:
            for mode in (['ident', 'rel'] if tier == 'thorough' else ['ident']):
                jobs.append({'family': 'H-ORDER', 'nodes': nodes, 'edges': edges, 'mode': mode, 'tier': 'quick', 'seed': seed})
        if tier == 'thorough':
            bj = built_jobs('H-ORDER', tier, seed, n4=-1, chain=-1, chain_max=6, rand=100)
        else:
            bj = built_jobs('H-ORDER', tier, seed, n4=200, chain=200, chain_max=6)
        for j in bj:
            j['tier'] = 'quick'
            j['seed'] = seed
        jobs += bj
        for i, j in enumerate(jobs):
            j['name'] = 'o%d_%s_%s' % (i, j['mode'], ''.join(k[0] for _, k in j['nodes']) + '_' + ''.join('%s%s' % (u, d) for d, u in j['edges']))
        jobs.sort(key=lambda j: -len(j['nodes']) * 10 - len(j['edges']))
        return jobs
    jobs = []
    for n in (1, 2, 3):
        for nodes, edges in H.all_instances(n):
            # reld (consumer-dependent comparison) subsumes rel (its special case G_d = identity); thorough runs both
            modes = ['ident', 'rel', 'reld', 'prod'] if tier == 'thorough' else ['ident', 'reld']
            for mode in modes:
                jobs.append({'family': 'H-EVAL', 'nodes': nodes, 'edges': edges, 'mode': mode})
    for nodes, edges in CURATED4:
        for mode in (['ident', 'rel'] if tier == 'thorough' else ['ident']):
            jobs.append({'family': 'H-EVAL', 'nodes': nodes, 'edges': edges, 'mode': mode, 'max_states': 150000})
    # a seeded sample of the 5184 four-job graphs from the fully symbolic well-formed history (the complete enumeration stops at 3)
    rng4 = random.Random(7919 * seed + 5)
    inst4 = list(H.all_instances(4))
    for nodes, edges in rng4.sample(inst4, 600 if tier == 'thorough' else 20):
        jobs.append({'family': 'H-EVAL', 'nodes': nodes, 'edges': edges, 'mode': 'ident', 'max_states': 1500000, 'tag': 'sym4'})
    if tier == 'thorough':
        jobs += built_jobs('H-EVAL', tier, seed, n4=-1, chain=-1, chain_max=6, rand=300, modes=('ident',))
        jobs += built_jobs('H-EVAL', tier, seed, n4=600, chain=300, chain_max=6, rand=0, modes=('reld',))
    else:
        jobs += built_jobs('H-EVAL', tier, seed, n4=300, chain=600, chain_max=6, rand=0, modes=('ident',))
        jobs += built_jobs('H-EVAL', tier, seed, n4=60, chain=20, chain_max=6, rand=0, modes=('reld',), curated=False)
    for i, j in enumerate(jobs):
        j['name'] = 'u%d_%s%s_%s' % (i, 'B' if j.get('hist') == 'built' else '', j['mode'], ''.join(k[0] for _, k in j['nodes']) + '_' + ''.join('%s%s' % (u, d) for d, u in j['edges']))
    rng = random.Random(seed)
    rng.shuffle(jobs)
    # big ones first for load balance
    jobs.sort(key=lambda j: -len(j['nodes']) * 10 - len(j['edges']))
    return jobs


def results_key(family, tier, seed):
    return '%s_%s_%s_%s_%d' % (build.tree_hash(), framework_hash(), family, tier, seed)


def framework_hash():
    h = hashlib.sha256()
    d = os.path.dirname(os.path.abspath(__file__))
    for f in sorted(os.listdir(d)):
        if f.endswith('.py'):
            h.update(open(os.path.join(d, f), 'rb').read())
    return h.hexdigest()[:10]


def run(family, tier, seed, log=sys.stderr, wall_cap=None, nproc=16):
    """returns the aggregated result dict (cached)"""
    key = results_key(family, tier, seed)
    path = os.path.join(build.CACHE, 'results', key + '.json')
    with build.Lock('results_%s_%s' % (family, tier)):
        if os.path.exists(path):
            return json.load(open(path))
        t0 = time.time()
        jobs = universes(family, tier, seed)
        if wall_cap:
            for j in jobs:
                j['deadline'] = t0 + wall_cap
        agg = {'key': key, 'family': family, 'tier': tier, 'seed': seed, 'mon_stats': {}, 'universes': len(jobs), 'states': 0, 'transitions': 0, 'events': 0,
               'forks': 0, 'finals': 0, 'obligations': 0, 'discharged': 0, 'by_eval': 0, 'mir_blocks': 0,
               'solver': {'queries': 0, 'sat': 0, 'unsat': 0, 'solver_s': 0.0, 'cache_hits': 0, 'by_class': {}},
               'groups': {}, 'samples': [], 'errors': [], 'capped': [], 'per_family': {}, 'per_mode': {}}
        with Pool(nproc, initializer=_init) as p:
            for r in p.imap_unordered(explore_universe, jobs, chunksize=1):
                if not r.get('ok'):
                    agg['errors'].append({'universe': r['name'], 'error': r.get('error'), 'trace': r.get('trace')})
                    continue
                for k in ('states', 'transitions', 'events', 'forks', 'finals', 'obligations', 'discharged', 'by_eval', 'mir_blocks'):
                    agg[k] += r[k]
                s = r['solver']
                for k in ('queries', 'sat', 'unsat', 'cache_hits'):
                    agg['solver'][k] += s[k]
                agg['solver']['solver_s'] += s['solver_s']
                for c, v in s['by_class'].items():
                    e = agg['solver']['by_class'].setdefault(c, {'n': 0, 's': 0.0})
                    e['n'] += v['n']
                    e['s'] += v['s']
                pm = agg['per_mode'].setdefault(r['mode'], {'universes': 0, 'states': 0})
                pm['universes'] += 1
                pm['states'] += r['states']
                if r['capped']:
                    agg['capped'].append(r['name'])
                for k, v in r.get('mon_stats', {}).items():
                    agg['mon_stats'][k] = agg['mon_stats'].get(k, 0) + v
                for gk, g in r['groups'].items():
                    G = agg['groups'].setdefault(gk, {'prop': g['prop'], 'count': 0, 'universes': 0, 'examples': [], 'modes': []})
                    G['count'] += g['count']
                    if r['mode'] not in G['modes']:
                        G['modes'].append(r['mode'])
                    for e in g['examples']:
                        e['mode'] = r['mode']
                    G['universes'] += 1
                    G['examples'].extend(g['examples'])
                    G['examples'].sort(key=lambda e: (len((e.get('scenario') or {}).get('nodes', ())), e['depth']))
                    del G['examples'][3:]
                if len(agg['samples']) < 6:
                    agg['samples'].extend(r['samples'])
        agg['wall_s'] = time.time() - t0
        agg['bodies_executed'] = []
        os.makedirs(os.path.dirname(path), exist_ok=True)
        with open(path + '.tmp', 'w') as f:
            json.dump(agg, f)
        os.rename(path + '.tmp', path)
        print('[runall] %s %s: %d universes, %d states, %d events, %d obligations, wall %.1fs' % (
            family, tier, len(jobs), agg['states'], agg['events'], agg['obligations'], agg['wall_s']), file=log)
        return agg


if __name__ == '__main__':
    tier = sys.argv[1] if len(sys.argv) > 1 else 'quick'
    fam = sys.argv[2] if len(sys.argv) > 2 else 'H-EVAL'
    r = run(fam, tier, int(os.environ.get('VERIF_SEED', '0')))
    print(json.dumps({k: v for k, v in r.items() if k not in ('groups', 'samples')}, indent=1)[:3000])
    for gk, g in sorted(r['groups'].items()):
        print(g['count'], g['universes'], gk)

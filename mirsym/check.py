"""check <ID> [--tier quick|thorough] [--replay <path>]

exit 0: property held on everything explored (KNOWN-FINDING lines possible)
exit 1: a violation confirmed on the real crate and not listed as known: VIOLATION property=<id> replay=<path>
exit 2: inconclusive (build failure, unsupported MIR construct, model/native disagreement, solver error, wall cap)
"""
import os, sys, json, time, re, argparse, traceback

VERIF = os.path.dirname(os.path.dirname(os.path.abspath(__file__)))
if VERIF not in sys.path:
    sys.path.insert(0, VERIF)

from mirsym import build, rt, scenario as S, explore as X, monitors as Mo, difftest, runall, props  # noqa: E402


def log(*a):
    print(*a, file=sys.stderr)
    sys.stderr.flush()


class Inconclusive(Exception):
    pass


def load_known():
    p = os.path.join(VERIF, 'known_findings.json')
    if not os.path.exists(p):
        return []
    return json.load(open(p)).get('findings', [])


def match_known(known, prop, what, native_trace):
    text = '\n'.join(native_trace)
    for k in known:
        if k.get('status') != 'known' or k.get('property') != prop:
            continue
        sig = k.get('signature', {})
        ok = True
        if 'what_regex' in sig and not re.search(sig['what_regex'], what):
            ok = False
        if 'trace_regex' in sig and not re.search(sig['trace_regex'], text):
            ok = False
        if ok:
            return k
    return None


def confirm(mod, replay_bins, sc, prop):
    """(confirmed: bool, reason, native_trace)"""
    a = S.run_mirsym(mod, sc)
    native = None
    for rb in replay_bins:
        b = S.run_native(rb, [sc]).get(sc.name, [])
        if native is None:
            native = b
        d = S.diff_traces(a, b)
        if d is not None:
            return False, 'model/native trace mismatch at line %d:\n  mirsym: %s\n  native: %s' % d, b
    ex = X.run_script(mod, sc, runall.make_monitors('H-EVAL'))
    if not any(v.prop == prop for v in ex.violations):
        return False, 'concrete re-execution of the counterexample does not violate %s' % prop, native
    return True, 'reproduced', native


def main(argv):
    ap = argparse.ArgumentParser()
    ap.add_argument('prop')
    ap.add_argument('--tier', default=os.environ.get('VERIF_TIER', 'quick'))
    ap.add_argument('--replay', default=None)
    args = ap.parse_args(argv)
    prop = args.prop
    tier = args.tier if args.tier in ('quick', 'thorough') else 'quick'
    seed = int(os.environ.get('VERIF_SEED', '0') or 0)
    t0 = time.time()
    # sampled second-solver check of the queries z3 decides (every n-th is re-decided by cvc5; disagreement -> exit 2)
    os.environ.setdefault('MIRSYM_XCHECK', '400' if tier == 'quick' else '40')
    outdir = os.path.join(VERIF, 'out', prop)
    os.makedirs(outdir, exist_ok=True)
    os.makedirs(os.path.join(VERIF, 'evidence'), exist_ok=True)
    try:
        mod, info = build.load_engine(log=sys.stderr)
        rb = build.build_replay(log=sys.stderr)
        bins = [rb]
        if args.replay:
            return replay_only(mod, bins, prop, args.replay)
        # ---- translator / model validation (abbreviated, every run)
        nchains = 400 if tier == 'quick' else 4000
        dt = difftest.run(mod, rb, nchains, seed + 1, log=sys.stderr)
        if dt['mismatches']:
            sc, d = dt['mismatches'][0]
            p = os.path.join(outdir, 'difftest_mismatch.txt')
            open(p, 'w').write(sc.to_text() + '\n' + repr(d))
            raise Inconclusive('MIR executor disagrees with the real crate on %d scenario(s), first: %s' % (len(dt['mismatches']), p))
        res = props.run_property(prop, tier, seed, mod, bins, dt, log)
    except (Inconclusive, build.BuildError, rt.Unsupported) as e:
        print('INCONCLUSIVE property=%s: %s' % (prop, str(e)[:2000]))
        return 2
    res['wall_s'] = round(time.time() - t0, 2)
    return props.finish(prop, tier, seed, res, outdir)


def replay_only(mod, bins, prop, path):
    sc = S.Scenario.from_json(json.load(open(path))['scenario'])
    ok, why, native = confirm(mod, bins, sc, prop)
    print('\n'.join(native))
    if ok:
        print('VIOLATION property=%s replay=%s' % (prop, path))
        return 1
    print('replay: %s' % why)
    return 0


if __name__ == '__main__':
    try:
        sys.exit(main(sys.argv[1:]))
    except SystemExit:
        raise
    except Exception:
        traceback.print_exc()
        print('INCONCLUSIVE: internal error of the checker')
        sys.exit(2)

"""H-ORDER (C14, and C15's third clause under S-rel): the outcome of a failure-free evaluation must not depend on
the schedule or on the declaration order of nodes and edges.

Per graph instance the evaluation is explored (no faults, no abort; every interleaving and cleanup-ack delay) under
several declaration orders.  Every completed path yields (path condition, outcome); for every pair of distinct
outcomes z3 decides whether one and the same input (history, present set, job outputs, comparison relation)
admits both: sat(pc_p /\ pc_q /\ outcomes differ)."""
import itertools, time
from . import rt, sym as F, explore as X, monitors as Mo, harness as H, cex
from .rt import Out


def disposition(ex, st, j):
    if j in st.dv.started:
        return 'executed'
    n = ex.job_state_name(st, j)
    if n.startswith('FinishedSuccess'):
        return 'ok'
    return n


class OutcomeCollector(X.Monitor):
    props = ('C14',)

    def bind(self, ex):
        X.Monitor.bind(self, ex)
        self.outcomes = {}

    def on_final(self, st):
        ex = self.ex
        dv = st.dv
        if dv.failed or dv.aborted or st.eng.query_upstream_failed() or st.hist is None or st.result != 'ok':
            return
        disp = tuple((j, disposition(ex, st, j)) for j in sorted(self.uni.ids))
        h = st.hist
        hist = tuple(sorted((k, repr(Mo.h_entry(h, k)[0]), repr(rt.term_of(v)) if type(v) in (Out, str) else repr(v))
                            for k, v in h.d.items()))
        key = (frozenset(st.pc.items()), disp, hist)
        if key not in self.outcomes:
            self.outcomes[key] = st


def perms_for(nodes, edges, tier, seed):
    """declaration orders: identity, reverse, rotations (quick); all node permutations x {edges, reversed edges} (thorough)"""
    out = [(list(nodes), list(edges))]
    def add(n, e):
        if (n, e) not in out:
            out.append((n, e))
    add(list(reversed(nodes)), list(reversed(edges)))
    if len(nodes) > 2:
        add(nodes[1:] + nodes[:1], edges[1:] + edges[:1] if edges else [])
    if tier == 'thorough':
        for p in itertools.permutations(nodes):
            add(list(p), list(edges))
            add(list(p), list(reversed(edges)))
    return out


def differ_formula(uni, mode, h1, h2):
    """formula: the two returned histories differ (presence, or values judged altered)"""
    keys = set(h1.d) | set(h2.d)
    ds = []
    for k in sorted(keys):
        p1, v1 = Mo.h_entry(h1, k)
        p2, v2 = Mo.h_entry(h2, k)
        if p1 is False and p2 is False:
            continue
        if v1 is None or v2 is None:
            ds.append(F.Not(F.Iff(F.Atom(p1), F.Atom(p2))))
            continue
        t1 = rt.term_of(v1)
        t2 = rt.term_of(v2)
        if k.endswith('!!!') or mode == 'ident':
            same = F.Eq(t1, t2)
        elif mode == 'rel':
            same = F.Rel(t1, t2)
        elif mode == 'reld':
            a, sep, b = k.partition('!!!')
            same = F.RelD(a + '\x02' + (b if (sep and b) else '!!!'), t1, t2)
        else:
            same = F.Or(F.Eq(t1, t2), F.Rel(t1, t2))
        ds.append(F.Or(F.Not(F.Iff(F.Atom(p1), F.Atom(p2))), F.And(F.Atom(p1), F.Not(same))))
    return F.Or(*ds)


def conflict(pc1, pc2):
    if len(pc2) < len(pc1):
        pc1, pc2 = pc2, pc1
    for a, v in pc1.items():
        w = pc2.get(a)
        if w is not None and w != v:
            return True
    return False


def run_instance(mod, nodes, edges, mode, tier, seed, deadline=None, built=False):
    """returns dict(stats..., violations=[{what, scenario, scenario2}])"""
    entries = []
    stats = {'states': 0, 'transitions': 0, 'events': 0, 'finals': 0, 'orders': 0, 'pairs': 0, 'pairs_solver': 0, 'capped': False}
    for (n2, e2) in perms_for(nodes, edges, tier, seed):
        uni = H.make_universe(mod, n2, e2, mode, built=built)
        oc = OutcomeCollector()
        ex = X.Explorer(uni, [oc], fail_actions=False, abort_actions=False)
        ex.run(deadline=deadline)
        stats['states'] += ex.n_states
        stats['transitions'] += ex.n_transitions
        stats['events'] += ex.n_events
        stats['finals'] += len(ex.finals)
        stats['orders'] += 1
        stats['capped'] = stats['capped'] or ex.capped
        if ex.finals:
            _s = ex.finals[0]
            stats['sample'] = {'path': [[list(a), r] for a, r in _s.path()], 'path_condition': [[repr(a), b] for a, b in sorted(_s.pc.items(), key=repr)][:40]}
        for (fpc, disp, hist), st in oc.outcomes.items():
            entries.append((dict(st.pc), fpc, disp, hist, st, uni, ex))
    z = F.Z3Ctx()
    viols = []
    seen_pairs = set()
    for i in range(len(entries)):
        pc1, f1, d1, h1k, st1, u1, ex1 = entries[i]
        for k in range(i + 1, len(entries)):
            pc2, f2, d2, h2k, st2, u2, ex2 = entries[k]
            if d1 == d2 and h1k == h2k:
                continue
            stats['pairs'] += 1
            if conflict(pc1, pc2):
                continue
            sig = (d1, h1k, d2, h2k, f1 | f2)
            if sig in seen_pairs:
                continue
            seen_pairs.add(sig)
            if d1 != d2:
                f = F.TRUE
            else:
                f = differ_formula(u1, mode, st1.hist, st2.hist)
                if f is F.FALSE:
                    continue
            stats['pairs_solver'] += 1
            joint = frozenset(f1 | f2)
            model = z.check_formula(joint, z.to_z3(f), 'c14-pair')
            if model is None:
                continue
            c = cex.Concretizer(z, u1, model)
            sc1 = c.scenario(u1, st1.path(), 'c14_a')
            sc2 = c.scenario(u2, st2.path(), 'c14_b')
            what = ('final dispositions differ between two schedules / declaration orders: %r vs %r' % (d1, d2)) if d1 != d2 else \
                   'returned histories differ between two schedules / declaration orders of the same evaluation'
            viols.append({'what': what, 'scenario': sc1.to_json(), 'scenario2': sc2.to_json(),
                          'depth': st1.depth + st2.depth, 'pc': [[repr(a), b] for a, b in sorted(joint, key=repr)]})
            if len(viols) >= 3:
                break
        if len(viols) >= 3:
            break
    stats['solver'] = z.stats.to_json()
    stats['outcomes'] = len(entries)
    return stats, viols

"""Per-property verdicts: which harness family serves a property, confirmation of counterexamples on the real
crate, known-findings matching, evidence."""
import os, sys, json, time

from . import build, rt, scenario as S, explore as X, runall, check as CK

VERIF = build.VERIF

HEVAL_PROPS = {'C02', 'C03', 'C04', 'C05', 'C06', 'C07', 'C08', 'C09', 'C10', 'C11', 'C13', 'C16', 'C17', 'C18'}

BOUNDS_C01 = ('H-IND: one inductive step from every history/file state satisfying the invariant Sound (DESIGN.md 5.4) on all DAGs on <=3 jobs x '
              'all kind assignments under string comparison and under an arbitrary equivalence relation as comparison, curated 4-job shapes, and the '
              'stale-record / renamed multi-output universes of H-HIST; job behaviours are uninterpreted functions of consumed contents (per job and '
              'input list), Always outputs fresh per evaluation; every schedule, failure subset and abort point; an invariant failure is followed '
              'by a second, failure-free evaluation from the returned history and reported only if that produces a wrong result')

BOUNDS_C19 = {
    'quick': 'H-SIZE: chains, layered graphs (each job depends on two jobs of the previous layer) and fan-out/fan-in graphs; all 27 periodic kind '
             'patterns of period 3 at 8-9 jobs; 600 jobs (chain 600, layers 20x30, fan 600) under 3-5 kind patterns each; chain 2000 (re-evaluation only, '
             'started from a directly constructed built history); an Output + 300 chained Ephemerals + Output; 48 fully connected layers of 2 Ephemerals and 30 '
             'layers of 3 between Outputs; Ephemeral-only tails (2x48, 1x600, 3x20); cascade shapes: first build, '
             'first build with root failure, abort after 1 start and midway, re-evaluation of the built project with the first/last Output result '
             'symbolically deleted and the first Always / first re-executed job reporting a symbolic new value (covers up-to-date re-run and single '
             'invalidation at either end), re-evaluation with root failure and with abort; sequential driver',
    'thorough': 'quick + chain 4000 (pattern OOO) and 1500 (six patterns), layers 40x100 (OOO), 30x50 and 100x12, fan 4000 (OOO) and 1500, Output + 1500 chained Ephemerals + Output, 200 layers of 2 Ephemerals',
}

BOUNDS_HEVAL = {
    'quick': 'every listed universe is explored completely (every interleaving, every failure subset, abort at every quiescent point, every '
             'cleanup-acknowledgement delay, every solver-feasible value of the symbolic records/presence bits/outputs/comparison). Universes: '
             '(1) all DAGs on <=3 jobs x all 3^N kind assignments from every well-formed symbolic history, under S-test (string inequality, real MIR of '
             'StrategyForTesting) and S-reld (comparison = arbitrary equivalence relation, possibly different per consumer); (2) 6 curated 4-job shapes and a '
             'seeded sample of 20 of the 5184 four-job graphs, same symbolic history, S-test; (3) H-BUILT (project completely built before; symbolic: presence '
             'of every result file, every reported output): 15 curated 4-7 job shapes, a seeded sample of 300 four-job graphs and of 600 of the 1582 '
             'chain-family shapes (<= 6 jobs; all shapes with >= 3 Ephemerals), S-test; 80 of them also under S-reld. The sample depends on VERIF_SEED.',
    'thorough': 'quick universes with S-rel and S-prod (production shortcut last==current) added for N<=3; 600 four-job graphs from the symbolic history; '
                'H-BUILT: all 5184 four-job graphs, the complete chain family (1582 shapes, <= 6 jobs), 300 random 5-7 job graphs; 900 of them under S-reld',
}

ASSUMPTIONS = [
    'MIR text dumped by rustc (nightly, -Zunpretty=mir, overflow checks on) of /repo\'s working tree is the semantics of the source',
    'std/petgraph containers, iterators, Option/Result, str and fmt are hand-written models (mirsym/models.py), validated '
    'differentially against the compiled crate on every run (traces_validated_against_impl)',
    'log::max_level() = Off (no logger installed): logging arguments are never evaluated',
    'output values are an uninterpreted sort: the engine may only move, clone, compare and display them '
    '(any other string operation on one aborts the run as unsupported)',
    'starting history of an evaluation: arbitrary subject to H[j] present <=> H[j!!!] present (shown inductive by an obligation on every returned history)',
    'HashSet/HashMap iteration follows insertion order (hash-order nondeterminism is outside the claim)',
    'z3 is trusted for QF_UF; every n-th query (n = 400 quick / 40 thorough, counted per universe) is re-decided by cvc5 from an SMT-LIB2 '
    'dump (solver.by_class["cvc5-crosscheck"]); a disagreement makes the run inconclusive',
    'cleanup blocks / unwinding paths are not executed: a panic ends the run and is reported',
]


FAMILY_BOUNDS = {
    'H-EVAL': BOUNDS_HEVAL,
    'H-IND': {'quick': BOUNDS_C01 + '; H-BUILT universes: 15 curated shapes, seeded samples of 300 four-job graphs and 300 chain-family shapes',
              'thorough': BOUNDS_C01 + '; H-BUILT universes: all four-job graphs, the complete chain family, 100 random 5-7 job graphs'},
    'H-SIZE': BOUNDS_C19,
    'H-RESUME': {'quick': 'H-RESUME: interrupted evaluation (every failure subset / abort point / schedule) from every Sound symbolic history, failure-free resume '
                          'from the symbolic history it returned (every schedule), every uninterrupted evaluation from the same start; job behaviours deterministic; '
                          'all DAGs on <=3 jobs x kinds under S-test; H-BUILT: curated shapes with <= 5 jobs and 40 sampled four-job graphs',
                 'thorough': 'quick + S-rel for N<=3; H-BUILT: all curated shapes, 600 four-job graphs, 200 chain-family shapes'},
    'H-EVAL2': {'quick': 'H-EVAL2: every failure-free evaluation from every well-formed symbolic history followed by a second evaluation from the symbolic '
                         'history it returned; all DAGs on <=3 jobs x kinds under S-test and S-rel, 6 curated 4-job shapes, the stale-record / renamed '
                         'multi-output / production-convention universes of H-HIST; H-BUILT: curated shapes, 200 four-job graphs, 120 chain-family shapes',
                'thorough': 'quick + H-BUILT: all four-job graphs, the complete chain family, 100 random 5-7 job graphs'},
    'H-ORDER': {'quick': 'H-ORDER: failure-free evaluation under every interleaving and cleanup delay, under 3 declaration orders (identity, reverse, rotation); '
                         'pairwise outcome comparison by z3; all DAGs on <=3 jobs x kinds under S-test and S-reld; 6 curated 4-job shapes; H-BUILT: curated '
                         'shapes, 200 four-job graphs, 200 chain-family shapes',
                'thorough': 'all node permutations x {edge order, reversed} for N<=3, S-rel and S-prod added; H-BUILT: all four-job graphs, complete chain family'},
    'H-HIST': {'quick': 'H-HIST: 11 universes with symbolic stale records (absent jobs, removed dependencies, superseded multi-output ids) + 4 under the '
                        'production input-name convention; every schedule / failure subset / abort point',
               'thorough': 'quick + S-rel'},
}


def sources_for(prop):
    """list of (family, group filter, property under which the counterexample is re-checked concretely)"""
    if prop == 'C18':
        return [('H-HIST', lambda G: G['prop'] == 'C18', None), ('H-EVAL', lambda G: G['prop'] == 'C18', None)]
    if prop == 'C09':
        return [('H-EVAL', lambda G: G['prop'] == 'C09', None), ('H-RESUME', lambda G: G['prop'] == 'C09', None)]
    if prop == 'C03':
        # a job skipped although what it was built from has changed also shows across evaluations, when a record left by an
        # interrupted evaluation vouches for it: the H-IND chains whose wrong result belongs to a job that was *skipped*
        return [('H-EVAL', lambda G: G['prop'] == 'C03', None),
                ('H-IND', lambda G: G['prop'] == 'C01' and any(e.get('c01', {}).get('executed') is False for e in G['examples']), None)]
    if prop in HEVAL_PROPS or prop == 'C20':
        return [('H-EVAL', lambda G: G['prop'] == prop, None)]
    if prop == 'C14':
        return [('H-ORDER', lambda G: G['prop'] == 'C14', None)]
    if prop == 'C12':
        return [('H-EVAL2', lambda G: True, None)]
    if prop == 'C01':
        return [('H-IND', lambda G: G['prop'] == 'C01', None)]
    if prop == 'C19':
        return [('H-SIZE', lambda G: G['prop'] == 'C19', None)]
    if prop == 'C15':
        # comparison-specific violations only: seen under S-rel / S-prod and not under string inequality
        rel_only = lambda G: 'ident' not in G.get('modes', [])
        return [('H-EVAL', lambda G: G['prop'] in ('C03', 'C04', 'C06', 'C07', 'C11', 'C16') and rel_only(G), 'group'),
                ('H-ORDER', lambda G: G['prop'] == 'C14' and rel_only(G), 'group'),
                # renamed multi-output upstreams under the production convention (comparison relation + last==current shortcut)
                ('H-HIST', lambda G: G['prop'] in ('C03', 'C04', 'C06', 'C07', 'C11', 'C16') and rel_only(G), 'group')]
    return []


def run_property(prop, tier, seed, mod, bins, dt, log):
    srcs = sources_for(prop)
    if not srcs:
        raise CK.Inconclusive('no check implemented for %s' % prop)
    cap = 1500 if tier == 'quick' else 6 * 3600
    known = CK.load_known()
    out = {'families': {}, 'confirmed': [], 'known': [], 'unconfirmed': [], 'replays': 0, 'dt': dt}
    outdir = os.path.join(VERIF, 'out', prop)
    n = 0
    for family, flt, reprop in srcs:
        res = runall.run(family, tier, seed, log=sys.stderr, wall_cap=cap)
        if res['errors']:
            e = res['errors'][0]
            raise CK.Inconclusive('%s: %d universe(s) could not be executed, first %s: %s' % (family, len(res['errors']), e['universe'], e['error']))
        if res['capped']:
            raise CK.Inconclusive('%s: exploration hit its cap in %d universe(s) (%s ...): no verdict' % (family, len(res['capped']), res['capped'][0]))
        if res['states'] == 0 or res['finals'] == 0:
            raise CK.Inconclusive('%s: vacuous exploration: no states / no completed paths' % family)
        out['families'][family] = res
        for gk, g in sorted(res['groups'].items()):
            if not flt(g):
                continue
            for exm in g['examples'][:2]:
                cprop = g['prop'] if reprop == 'group' else prop
                if g['prop'] == 'C01':
                    if prop == 'C03' and exm.get('c01', {}).get('executed') is not False:
                        continue
                    ok, why, native = confirm_c01(mod, bins, exm)
                elif g['prop'] == 'C19':
                    ok, why, native = confirm_size(mod, bins, exm)
                elif exm.get('chain'):
                    ok, why, native = confirm_chain(mod, bins, exm, 'C12' if family == 'H-EVAL2' else g['prop'])
                elif g['prop'] == 'C14':
                    ok, why, native = confirm_pair(mod, bins, exm)
                elif 'did not terminate within the step budget' in exm['what']:
                    sc = S.Scenario.from_json(exm['scenario'])
                    if native_hangs(bins, sc):
                        ok, why, native = True, 'reproduced', ['native replay of the scenario did not finish within 40 s (the MIR executor exceeded its per-event block budget)']
                    else:
                        ok, why, native = False, 'the real crate finishes the scenario', []
                else:
                    sc = S.Scenario.from_json(exm['scenario'])
                    ok, why, native = CK.confirm(mod, bins, sc, cprop)
                out['replays'] += 1
                if not ok:
                    out['unconfirmed'].append({'group': gk, 'what': exm['what'], 'why': why, 'scenario': exm['scenario']})
                    continue
                n += 1
                path = os.path.join(outdir, 'cex-%d.json' % n)
                rec_json = {'property': prop, 'what': exm['what'], 'group': gk, 'count_in_exploration': g['count'],
                            'scenario': exm['scenario'], 'path_condition': exm.get('pc'), 'native_trace': native, 'family': family}
                for kx in ('scenario2', 'scenario3', 'chain', 'c01', 'kind', 'orig_prop'):
                    if kx in exm:
                        rec_json[kx] = exm[kx]
                json.dump(rec_json, open(path, 'w'), indent=1)
                k = CK.match_known(known, prop, exm['what'], native)
                rec = {'group': gk, 'what': exm['what'], 'replay': path, 'count': g['count']}
                if k is not None:
                    rec['known'] = k['id']
                    out['known'].append(rec)
                else:
                    out['confirmed'].append(rec)
                break
    return out


def final_outcome(trace, classes):
    """(states string, history dict with values mapped to their class) of a native trace"""
    states = None
    hist = {}
    for l in trace:
        f = l.split('\t')
        if f[0] == 'E' and len(f) > 10:
            st = [x for x in f if x.startswith('states=')]
            if st:
                states = st[0]
        elif f[0] == 'H':
            v = f[2]
            hist[f[1]] = v if f[1].endswith('!!!') else classes.get(v, v)
    norm = []
    if states:
        import re
        for part in states[7:].split(';'):
            norm.append(re.sub(r'FinishedSuccess\w*', 'FinishedSuccess', part))
    return tuple(norm), hist


def native_checked(mod, bins, sc):
    a = S.run_mirsym(mod, sc)
    b = S.run_native(bins[0], [sc]).get(sc.name, [])
    d = S.diff_traces(a, b)
    if d is not None:
        return None, 'model/native trace mismatch at line %d:\n  mirsym: %s\n  native: %s' % d
    return b, None


def trace_info(trace):
    """(accepted run events, ok events, history dict, final states) from a native trace"""
    started = []
    hist = {}
    for l in trace:
        f = l.split('\t')
        if f[0] == 'H':
            hist[f[1]] = f[2]
    return hist


def confirm_chain(mod, bins, exm, prop):
    """two-evaluation counterexamples: the first evaluation is replayed natively, the history it returns must be the
    one the second scenario starts from, then the second (and the uninterrupted twin) are replayed natively and the
    claim is re-established from the native traces alone"""
    sc1 = S.Scenario.from_json(exm['scenario'])
    sc2 = S.Scenario.from_json(exm['scenario2'])
    n1, err = native_checked(mod, bins, sc1)
    if n1 is None:
        return False, err, []
    h1 = {}
    for l in n1:
        f = l.split('\t')
        if f[0] == 'H':
            h1[S.unesc(f[1])] = S.unesc(f[2])
    if h1 != sc2.hist:
        return False, 'history returned natively by the first evaluation is not the one predicted for the second: %r vs %r' % (sorted(h1.items()), sorted(sc2.hist.items())), n1
    n2, err = native_checked(mod, bins, sc2)
    if n2 is None:
        return False, err, n1
    cl = dict(sc2.classes) if sc2.strategy != 'ident' else {}
    kinds = dict(sc2.nodes)
    started2 = [e[1] for e in sc2.events if e[0] == 'run']
    h2 = {}
    for l in n2:
        f = l.split('\t')
        if f[0] == 'H':
            h2[S.unesc(f[1])] = S.unesc(f[2])
    native = n1 + ['--- second evaluation'] + n2

    def norm(h):
        return {k: (v if k.endswith('!!!') else cl.get(v, v)) for k, v in h.items()}
    if prop == 'C12':
        if any(kinds[j] == 'Output' for j in started2):
            return True, 'reproduced', native
        if any(kinds[j] == 'Ephemeral' for j in started2) and 'no Always job consumes' in exm['what']:
            return True, 'reproduced', native
        if norm(h2) != norm(h1):
            return True, 'reproduced', native
        # other monitors' violations inside the second evaluation: accept when the single-evaluation replay confirms
        ok, why, nat = CK.confirm(mod, bins, sc2, prop)
        return ok, why, native
    if prop == 'C09':
        if 'the resumed evaluation cannot complete' in exm['what']:
            ev2 = [l.split('\t') for l in n2 if l.startswith('E\t')]
            if any(len(f) > 3 and f[3].startswith(('err:InternalError', 'panic')) for f in ev2):
                return True, 'reproduced', native
            if ev2:
                d = dict(x.split('=', 1) for x in ev2[-1][4:] if '=' in x)
                if d.get('fin') == '0' and not d.get('ready') and not d.get('running'):
                    return True, 'reproduced', native
            return False, 'the resumed evaluation completes natively', native
        ok1 = [e[1] for e in sc1.events if e[0] == 'ok']
        okres = [l.split('\t')[3] for l in n1 if l.startswith('E\t') and l.split('\t')[2] == 'ok']
        succeeded = set(j for j, r in zip(ok1, okres) if r == 'ok')
        if any(j in succeeded and kinds[j] == 'Output' for j in started2):
            return True, 'reproduced', native
        if 'scenario3' in exm:
            sc3 = S.Scenario.from_json(exm['scenario3'])
            n3, err = native_checked(mod, bins, sc3)
            if n3 is None:
                return False, err, native
            native = native + ['--- uninterrupted evaluation'] + n3
            started3 = set(e[1] for e in sc3.events if e[0] == 'run')
            h3 = {}
            for l in n3:
                f = l.split('\t')
                if f[0] == 'H':
                    h3[S.unesc(f[1])] = S.unesc(f[2])
            if not set(started2) <= started3:
                return True, 'reproduced', native
            outs = set(j for j, k in kinds.items() if k == 'Output')
            if (succeeded | set(started2)) & outs != started3 & outs:
                return True, 'reproduced', native
            if norm(h2) != norm(h3):
                return True, 'reproduced', native
        return False, 'claim not re-established from the native traces', native
    return False, 'no native oracle for %s chains' % prop, native


def confirm_c01(mod, bins, exm):
    """C01: the evaluation(s) replay natively exactly as predicted (same offers, dispositions, returned history; the
    second evaluation starts from the history the first returned natively); the last one finishes without failed or
    upstream-failed jobs with the job in question executed / skipped as predicted; its result then differs from the
    clean-build reference under the solver's interpretation of the job behaviours (values recorded in the file)"""
    sc1 = S.Scenario.from_json(exm['scenario'])
    n1, err = native_checked(mod, bins, sc1)
    if n1 is None:
        return False, err, []
    native = list(n1)
    last_sc, last_n = sc1, n1
    if exm.get('chain'):
        sc2 = S.Scenario.from_json(exm['scenario2'])
        h1 = {}
        for l in n1:
            f = l.split('\t')
            if f[0] == 'H':
                h1[S.unesc(f[1])] = S.unesc(f[2]) if len(f) > 2 else ''
        if h1 != sc2.hist:
            return False, 'history returned natively by the first evaluation is not the one predicted for the second: %r vs %r' % (sorted(h1.items()), sorted(sc2.hist.items())), n1
        n2, err = native_checked(mod, bins, sc2)
        if n2 is None:
            return False, err, n1
        native = n1 + ['--- next evaluation'] + n2
        last_sc, last_n = sc2, n2
    ev = [l.split('\t') for l in last_n if l.startswith('E\t')]
    if not ev or any(not f[3].startswith('ok') for f in ev):
        return False, 'a call of the last evaluation was not accepted natively', native
    fin = ev[-1]
    d = dict(x.split('=', 1) for x in fin[4:] if '=' in x)
    if d.get('fin') != '1' or d.get('failed') or d.get('uf'):
        return False, 'last evaluation did not finish failure-free natively', native
    info = exm['c01']
    started = set(e[1] for e in last_sc.events if e[0] == 'run')
    if (info['job'] in started) != bool(info['executed']):
        return False, 'job %s executed/skipped differently than predicted' % info['job'], native
    if info['result_value'] == info['clean_value']:
        return False, 'result equals the clean-build reference in the model', native
    return True, 'reproduced', native


def native_hangs(bins, sc, timeout=40):
    """True if the real crate does not get through the scenario within `timeout` seconds (the scenarios here take
    milliseconds when the engine terminates)"""
    import subprocess
    try:
        S.run_native(bins[0], [sc], timeout=timeout)
        return False
    except subprocess.TimeoutExpired:
        return True


def confirm_size(mod, bins, exm):
    """C19: the (up to two) evaluations replay natively exactly as predicted; the violation is re-established from the
    native trace (an internal error / panic returned by a call) or, for the other oracles, by re-running the monitors on
    the concrete scenario whose trace the real crate reproduced line by line"""
    from . import size
    if not exm.get('scenario'):
        return False, 'no scenario', []
    sc1 = S.Scenario.from_json(exm['scenario'])
    if 'did not terminate within the step budget' in exm['what']:
        last = S.Scenario.from_json(exm['scenario2']) if exm.get('chain') else sc1
        if native_hangs(bins, last):
            return True, 'reproduced', ['native replay of the scenario did not finish within 40 s (the MIR executor exceeded its per-event block budget)']
        return False, 'the real crate finishes the scenario', []
    n1, err = native_checked(mod, bins, sc1)
    if n1 is None:
        return False, err, []
    native = [l[:400] for l in n1]
    last_sc, last_n = sc1, n1
    if exm.get('chain'):
        sc2 = S.Scenario.from_json(exm['scenario2'])
        h1 = {}
        for l in n1:
            f = l.split('\t')
            if f[0] == 'H':
                h1[S.unesc(f[1])] = S.unesc(f[2]) if len(f) > 2 else ''
        if h1 != sc2.hist:
            return False, 'history returned natively by the first evaluation is not the one predicted for the second', native[-5:]
        n2, err = native_checked(mod, bins, sc2)
        if n2 is None:
            return False, err, native[-5:]
        native = native[-3:] + ['--- next evaluation'] + [l[:400] for l in n2]
        last_sc, last_n = sc2, n2
    for l in last_n:
        f = l.split('\t')
        if f[0] == 'E' and len(f) > 3 and f[3].startswith(('err:InternalError', 'panic')):
            return True, 'reproduced', native[-12:]
    ex = X.run_script(mod, last_sc, size.monitors())
    if any(v.prop == exm.get('orig_prop') for v in ex.violations):
        return True, 'reproduced', native[-12:]
    return False, 'claim not re-established on the concrete scenario', native[-12:]


def confirm_pair(mod, bins, exm):
    """C14: both schedules replay natively exactly as predicted and their final outcomes differ on the real crate"""
    sc1 = S.Scenario.from_json(exm['scenario'])
    sc2 = S.Scenario.from_json(exm['scenario2'])
    natives = []
    for sc in (sc1, sc2):
        a = S.run_mirsym(mod, sc)
        b = S.run_native(bins[0], [sc]).get(sc.name, [])
        d = S.diff_traces(a, b)
        if d is not None:
            return False, 'model/native trace mismatch at line %d:\n  mirsym: %s\n  native: %s' % d, b
        natives.append(b)
    cl = dict(sc1.classes) if sc1.strategy != 'ident' else {}
    o1 = final_outcome(natives[0], cl)
    o2 = final_outcome(natives[1], cl)
    if o1 == o2:
        return False, 'the two schedules have the same outcome on the real crate', natives[0] + natives[1]
    return True, 'reproduced', natives[0] + ['--- second schedule / declaration order'] + natives[1]


def merged(out):
    fams = out['families']
    res = {'states': 0, 'transitions': 0, 'events': 0, 'finals': 0, 'forks': 0, 'obligations': 0, 'discharged': 0, 'by_eval': 0,
           'mir_blocks': 0, 'universes': 0, 'samples': [], 'per_family': {}, 'solver': {'queries': 0, 'sat': 0, 'unsat': 0, 'solver_s': 0.0},
           'wall_s': 0.0, 'mon_stats': {}}
    for f, r in fams.items():
        for k in ('states', 'transitions', 'events', 'finals', 'forks', 'obligations', 'discharged', 'by_eval', 'mir_blocks', 'universes'):
            res[k] += r.get(k, 0)
        for k in ('queries', 'sat', 'unsat', 'solver_s'):
            res['solver'][k] += r['solver'][k]
        res['samples'].extend(r['samples'][:3])
        res['wall_s'] += r.get('wall_s', 0.0)
        res['mon_stats'].update(r.get('mon_stats', {}))
        res['per_family'][f] = {'universes': r['universes'], 'states': r['states'], 'transitions': r['transitions'],
                                'completed_paths': r['finals'], 'obligations': r['obligations'], 'per_mode': r.get('per_mode'),
                                'solver': r['solver'], 'exploration_wall_s': r.get('wall_s')}
    return res


def finish(prop, tier, seed, out, outdir):
    res = merged(out)
    out['res'] = res
    rc = 0
    if out['unconfirmed']:
        u = out['unconfirmed'][0]
        p = os.path.join(outdir, 'unconfirmed.json')
        json.dump(out['unconfirmed'], open(p, 'w'), indent=1)
        if out['confirmed']:
            # a violation that did reproduce is reported as such; the ones that did not are listed for the record
            print('note: %d further counterexample(s) did not reproduce on the real crate (%s); see %s' % (
                len(out['unconfirmed']), u['why'][:200], p))
        else:
            print('INCONCLUSIVE property=%s: %d counterexample(s) did not reproduce on the real crate (%s); see %s' % (
                prop, len(out['unconfirmed']), u['why'][:300], p))
            rc = 2
    seen = set()
    for k in out['known']:
        if k['known'] in seen:
            continue
        seen.add(k['known'])
        print('KNOWN-FINDING: property=%s %s [%s] replay=%s' % (prop, k['what'][:160].replace('\n', ' '), k['known'], k['replay']))
    for v in out['confirmed']:
        print('VIOLATION property=%s replay=%s' % (prop, v['replay']))
        print('   %s (x%d in the exploration)' % (v['what'][:200].replace('\n', ' '), v['count']))
        rc = 1 if rc == 0 else rc
    write_evidence(prop, tier, seed, out)
    if rc == 0:
        print('OK property=%s tier=%s: held on %d states / %d transitions, %d obligations' % (
            prop, tier, res['states'], res['transitions'], res['obligations']))
    return rc


def write_evidence(prop, tier, seed, out):
    res = out['res']
    dt = out['dt']
    ev = {
        'property_id': prop, 'tier': tier, 'seed': seed, 'level': 'model_checking',
        'coverage': {
            'states': res['states'], 'transitions': res['transitions'],
            'traces_validated_against_impl': dt['scenarios'] + out['replays'],
            'samples': res['samples'][:4] or [{'note': 'no completed path sampled in this family; see per_family'}],
            'universes': res['universes'], 'events_executed': res['events'], 'completed_paths': res['finals'],
            'intra_event_forks': res['forks'],
            'obligations': res['obligations'], 'discharged': res['discharged'],
            'obligations_decided_by_pc_literal_evaluation': res['by_eval'],
            'solver': res['solver'], 'mir_blocks_executed': res['mir_blocks'],
            'per_family': res['per_family'], 'monitor_stats': res['mon_stats'],
            'bounds': ' || '.join((FAMILY_BOUNDS[f][tier] if isinstance(FAMILY_BOUNDS.get(f), dict) else str(FAMILY_BOUNDS.get(f, f))) for f in out['families']),
            'outside_the_claim': 'graphs that are not among the listed universes (in particular > 7 jobs except in H-SIZE); histories of larger graphs '
                                 'other than "completely built"; chains of evaluations other than through the one-step history invariants (WF, Sound) and '
                                 'the two-evaluation harnesses; hash iteration order; the python driver',
            'difftest': {'chains': dt['chains'], 'scenarios': dt['scenarios'], 'events': dt['events'], 'mismatches': len(dt['mismatches'])},
            'counterexamples_replayed_natively': out['replays'],
            'functions_encoded': 'all fn engine::* MIR bodies + StrategyForTesting impl (see DESIGN.md section 4); executed blocks are counted in mir_blocks_executed',
            'exploration_wall_s': res.get('wall_s'),
            'exhaustive': True,
        },
        'assumptions': ASSUMPTIONS,
        'wall_s': out.get('wall_s', 0.0),
        'violations': len(out['confirmed']),
        'known_findings': [k['known'] for k in out['known']],
    }
    p = os.path.join(VERIF, 'evidence', prop + '.json')
    with open(p + '.tmp', 'w') as f:
        json.dump(ev, f, indent=1)
    os.rename(p + '.tmp', p)

"""Per-property verdicts: which harness family serves a property, confirmation of counterexamples on the real
crate, known-findings matching, evidence."""
import os, sys, json, time

from . import build, rt, scenario as S, explore as X, runall, check as CK

VERIF = build.VERIF

HEVAL_PROPS = {'C02', 'C03', 'C04', 'C05', 'C06', 'C07', 'C08', 'C09', 'C10', 'C11', 'C13', 'C16', 'C17', 'C18'}

BOUNDS_HEVAL = {
    'quick': 'all DAGs on <=3 jobs x all 3^N kind assignments under S-test (string inequality, real MIR of StrategyForTesting) '
             'and S-rel (comparison = arbitrary equivalence relation); 6 curated 4-job shapes under S-test; one evaluation from '
             'every well-formed symbolic history; every interleaving, every failure subset, abort at every quiescent point, '
             'every cleanup-acknowledgement delay',
    'thorough': 'quick + S-prod (production shortcut last==current) for N<=3, curated 4-job shapes under S-rel',
}

ASSUMPTIONS = [
    'MIR text dumped by rustc (nightly, -Zunpretty=mir, overflow checks on) of /repo\'s working tree is the semantics of the source',
    'std/petgraph containers, iterators, Option/Result, str and fmt are hand-written models (mirsym/models.py), validated '
    'differentially against the compiled crate on every run (traces_validated_against_impl)',
    'log::max_level() = Off (no logger installed): logging arguments are never evaluated',
    'output values are an uninterpreted sort: the engine may only move, clone, compare and display them '
    '(any other string operation on one aborts the run as unsupported)',
    'starting history of an evaluation: arbitrary subject to H[j] present <=> H[j!!!] present (shown inductive by an obligation on every returned history)',
    'HashSet/HashMap iteration follows insertion order (hash-order nondeterminism is outside the claim)',
    'cleanup blocks / unwinding paths are not executed: a panic ends the run and is reported',
]


def run_property(prop, tier, seed, mod, bins, dt, log):
    if prop in HEVAL_PROPS:
        return run_heval(prop, tier, seed, mod, bins, dt, log)
    raise CK.Inconclusive('no check implemented for %s' % prop)


def run_heval(prop, tier, seed, mod, bins, dt, log):
    cap = 1500 if tier == 'quick' else 6 * 3600
    res = runall.run(tier, seed, log=sys.stderr, wall_cap=cap)
    if res['errors']:
        e = res['errors'][0]
        raise CK.Inconclusive('%d universe(s) could not be executed, first %s: %s' % (len(res['errors']), e['universe'], e['error']))
    if res['capped']:
        raise CK.Inconclusive('exploration hit its cap in %d universe(s) (%s ...): no verdict' % (len(res['capped']), res['capped'][0]))
    if res['states'] == 0 or res['finals'] == 0:
        raise CK.Inconclusive('vacuous exploration: no states / no completed paths')
    known = CK.load_known()
    out = {'family': 'H-EVAL', 'res': res, 'confirmed': [], 'known': [], 'unconfirmed': [], 'replays': 0, 'dt': dt}
    outdir = os.path.join(VERIF, 'out', prop)
    n = 0
    for gk, g in sorted(res['groups'].items()):
        if g['prop'] != prop:
            continue
        for exm in g['examples'][:2]:
            sc = S.Scenario.from_json(exm['scenario'])
            ok, why, native = CK.confirm(mod, bins, sc, prop)
            out['replays'] += 1
            if not ok:
                out['unconfirmed'].append({'group': gk, 'what': exm['what'], 'why': why, 'scenario': exm['scenario']})
                continue
            n += 1
            path = os.path.join(outdir, 'cex-%d.json' % n)
            json.dump({'property': prop, 'what': exm['what'], 'group': gk, 'count_in_exploration': g['count'],
                       'scenario': exm['scenario'], 'path_condition': exm['pc'], 'native_trace': native}, open(path, 'w'), indent=1)
            k = CK.match_known(known, prop, exm['what'], native)
            rec = {'group': gk, 'what': exm['what'], 'replay': path, 'count': g['count']}
            if k is not None:
                rec['known'] = k['id']
                out['known'].append(rec)
            else:
                out['confirmed'].append(rec)
            break
    return out


def finish(prop, tier, seed, out, outdir):
    res = out['res']
    rc = 0
    if out['unconfirmed']:
        u = out['unconfirmed'][0]
        p = os.path.join(outdir, 'unconfirmed.json')
        json.dump(out['unconfirmed'], open(p, 'w'), indent=1)
        print('INCONCLUSIVE property=%s: %d counterexample(s) did not reproduce on the real crate (%s); see %s' % (
            prop, len(out['unconfirmed']), u['why'][:300], p))
        rc = 2
    seen = set()
    for k in out['known']:
        if k['known'] in seen:
            continue
        seen.add(k['known'])
        print('KNOWN-FINDING: property=%s %s [%s] replay=%s' % (prop, k['what'][:160].replace('\n', ' '), k['known'], k['replay']))
    for v in out['confirmed']:
        print('VIOLATION property=%s replay=%s' % (prop, v['replay']))
        print('   %s (x%d in the exploration)' % (v['what'][:200].replace('\n', ' '), v['count']))
        rc = 1 if rc == 0 else rc
    write_evidence(prop, tier, seed, out)
    if rc == 0:
        print('OK property=%s tier=%s: held on %d states / %d transitions, %d obligations' % (
            prop, tier, res['states'], res['transitions'], res['obligations']))
    return rc


def write_evidence(prop, tier, seed, out):
    res = out['res']
    dt = out['dt']
    ev = {
        'property_id': prop, 'tier': tier, 'seed': seed, 'level': 'model_checking',
        'coverage': {
            'states': res['states'], 'transitions': res['transitions'],
            'traces_validated_against_impl': dt['scenarios'] + out['replays'],
            'samples': res['samples'][:4] or [{'note': 'no completed path sampled'}],
            'universes': res['universes'], 'events_executed': res['events'], 'completed_paths': res['finals'],
            'intra_event_forks': res['forks'],
            'obligations': res['obligations'], 'discharged': res['discharged'],
            'obligations_decided_by_pc_literal_evaluation': res['by_eval'],
            'solver': res['solver'], 'mir_blocks_executed': res['mir_blocks'],
            'per_mode': res['per_mode'],
            'bounds': BOUNDS_HEVAL[tier],
            'outside_the_claim': 'graphs with more than 3 jobs except the curated 4-job shapes; chains of evaluations other than through '
                                 'the one-step history invariant; hash iteration order; the python driver',
            'difftest': {'chains': dt['chains'], 'scenarios': dt['scenarios'], 'events': dt['events'], 'mismatches': len(dt['mismatches'])},
            'counterexamples_replayed_natively': out['replays'],
            'functions_encoded': 'all fn engine::* MIR bodies + StrategyForTesting impl (see DESIGN.md section 4); executed blocks are counted in mir_blocks_executed',
            'exploration_wall_s': res.get('wall_s'),
            'exhaustive': True,
        },
        'assumptions': ASSUMPTIONS,
        'wall_s': out.get('wall_s', 0.0),
        'violations': len(out['confirmed']),
        'known_findings': [k['known'] for k in out['known']],
    }
    p = os.path.join(VERIF, 'evidence', prop + '.json')
    with open(p + '.tmp', 'w') as f:
        json.dump(ev, f, indent=1)
    os.rename(p + '.tmp', p)

"""IR (mirparse) -> Python source: one function per MIR body, one function per basic block.

Values are immutable Python values (ints, bools, tuples, str, Out terms) except library containers
(rt.RVec, RHashMap, ...) which have identity.  Enums are tuples (variant_index, fields...), structs and
tuples are tuples of their fields in declaration order.  References are rt.Ref(container, key, path).
Calls go (a) to other generated bodies, (b) through the strategy object, (c) to library models in
models.py; a callee with no model compiles to a call of rt.unsupported(...) which raises at run time,
so unmodelled code can never be silently skipped.
"""
import re, os, hashlib
from . import mirparse as mp

STD_ENUMS = {
    'Option': ['None', 'Some'],
    'Result': ['Ok', 'Err'],
    'ControlFlow': ['Continue', 'Break'],
    'Cow': ['Borrowed', 'Owned'],
    'Direction': ['Outgoing', 'Incoming'],
    'LevelFilter': ['Off', 'Error', 'Warn', 'Info', 'Debug', 'Trace'],
    'Level': [None, 'Error', 'Warn', 'Info', 'Debug', 'Trace'],
    'AssertKind': ['Eq', 'Ne', 'Match'],
}
STD_STRUCTS = {'Range', 'RangeFull', 'Arguments'}

INT_BITS = {'u8': 8, 'u16': 16, 'u32': 32, 'u64': 64, 'u128': 128, 'usize': 64,
            'i8': 8, 'i16': 16, 'i32': 32, 'i64': 64, 'i128': 128, 'isize': 64}


def strip_generics(s):
    """remove ::<...> turbofish segments, lifetimes, and plain <...> generic args after identifiers"""
    out = []
    i = 0
    n = len(s)
    while i < n:
        if s.startswith('::<', i):
            # skip balanced <...>
            j = i + 2
            depth = 0
            while j < n:
                c = s[j]
                if c == '<':
                    depth += 1
                elif c == '>' and s[j - 1] not in '-=':
                    depth -= 1
                    if depth == 0:
                        break
                j += 1
            i = j + 1
            continue
        out.append(s[i])
        i += 1
    return ''.join(out)


ENUM_PAYLOADS = {}
STRUCT_FIELDS = {}


def scan_source_items(src_files):
    """enum name -> [variant names], struct names, from the crate's own source"""
    enums = {}
    structs = set()
    for path in src_files:
        try:
            txt = open(path).read()
        except OSError:
            continue
        txt_nc = re.sub(r'//[^\n]*', '', txt)
        txt_nc = re.sub(r'/\*.*?\*/', '', txt_nc, flags=re.S)
        for m in re.finditer(r'\benum\s+(\w+)\s*(?:<[^>]*>)?\s*\{', txt_nc):
            name = m.group(1)
            j = mp.match_close(txt_nc, m.end() - 1)
            body = txt_nc[m.end():j]
            variants = []
            payloads = []
            for part in mp.split_top(body):
                part = re.sub(r'#\[[^\]]*\]', '', part).strip()
                mm = re.match(r'(\w+)\s*(?:\((.*)\))?', part, re.S)
                if mm:
                    variants.append(mm.group(1))
                    payloads.append([t.strip() for t in mp.split_top(mm.group(2))] if mm.group(2) else [])
            enums[name] = variants
            ENUM_PAYLOADS[name] = payloads
        for m in re.finditer(r'\bstruct\s+(\w+)', txt_nc):
            structs.add(m.group(1))
        for m in re.finditer(r'\bstruct\s+(\w+)\s*(?:<[^{]*>)?\s*\{', txt_nc):
            j = mp.match_close(txt_nc, m.end() - 1)
            fields = []
            for part in mp.split_top(txt_nc[m.end():j]):
                part = re.sub(r'#\[[^\]]*\]', '', part).strip()
                mm = re.match(r'(?:pub(?:\([^)]*\))?\s+)?(\w+)\s*:', part)
                if mm:
                    fields.append(mm.group(1))
            STRUCT_FIELDS[m.group(1)] = fields
    return enums, structs


class ImplResolver:
    def __init__(self, root):
        self.root = root
        self.cache = {}
        self.files = {}

    def lines(self, f):
        if f not in self.files:
            self.files[f] = open(os.path.join(self.root, f)).read().split('\n')
        return self.files[f]

    def resolve(self, f, line, col):
        key = (f, line, col)
        if key in self.cache:
            return self.cache[key]
        ls = self.lines(f)
        text = ls[line - 1][col - 1:]
        res = None
        if text.startswith('impl'):
            # join following lines until '{'
            k = line - 1
            t = text
            while '{' not in t and k + 1 < len(ls):
                k += 1
                t += ' ' + ls[k]
            t = t[:t.index('{')]
            t = t[4:].strip()
            if t.startswith('<'):
                j = self._close_angle(t, 0)
                t = t[j + 1:].strip()
            t = re.sub(r'\bwhere\b.*$', '', t).strip()
            m = re.match(r'(.*?)\s+for\s+(.*)$', t)
            if m:
                res = '<%s as %s>' % (self._tyname(m.group(2)), self._tyname(m.group(1)))
            else:
                res = self._tyname(t)
        else:
            # derive: text starts with trait name; type is the next enum/struct item
            m = re.match(r'(\w+)', text)
            if not m:
                self.cache[key] = '<impl@%s:%d:%d>' % (f, line, col)
                return self.cache[key]
            trait = m.group(1)
            k = line - 1
            ty = None
            while k < len(ls):
                mm = re.search(r'\b(?:enum|struct)\s+(\w+)', ls[k])
                if mm and not ls[k].strip().startswith('//'):
                    ty = mm.group(1)
                    break
                k += 1
            res = '<%s as %s>' % (ty, trait)
        self.cache[key] = res
        return res

    @staticmethod
    def _close_angle(t, i):
        depth = 0
        for j in range(i, len(t)):
            if t[j] == '<':
                depth += 1
            elif t[j] == '>' and t[j - 1] not in '-=':
                depth -= 1
                if depth == 0:
                    return j
        raise mp.ParseError('angle %r' % t)

    @staticmethod
    def _tyname(t):
        t = t.strip()
        t = re.sub(r'<.*$', '', t)
        return t.split('::')[-1].strip()


IMPL_RE = re.compile(r'<impl at ([^:>]+):(\d+):(\d+): \d+:\d+>')


def canon_body_name(name, resolver):
    def rep(m):
        return resolver.resolve(m.group(1), int(m.group(2)), int(m.group(3)))
    s = IMPL_RE.sub(rep, name)
    return canon_path(s)


def canon_path(s):
    s = s.replace("'_, ", '').replace("'_", '')
    # drop module prefixes of this crate
    s = re.sub(r'\b(?:crate::|pypipegraph2::)?engine::', '', s)
    s = s.replace('pypipegraph2::', '')
    s = strip_generics(s)
    return s


class Gen:
    def __init__(self, bodies, errors, src_root, src_files):
        self.bodies = bodies
        self.errors = errors
        self.resolver = ImplResolver(src_root)
        enums, structs = scan_source_items(src_files)
        self.enums = dict(STD_ENUMS)
        self.enums.update(enums)
        self.structs = set(STD_STRUCTS) | structs
        self.by_canon = {}
        self.by_closure = {}
        self.pyname = {}
        self.consts = {}
        self.out = []
        self.used_models = set()
        self.unsupported_callees = set()
        for i, b in enumerate(bodies):
            b_canon = canon_body_name(b.name, self.resolver)
            self.pyname[id(b)] = 'F%d' % i
            # several bodies can share a canonical name (shims); first wins
            self.by_canon.setdefault(b_canon, b)
            if b.closure_type:
                self.by_closure[b.closure_type] = b
        self.canon_of = {id(b): canon_body_name(b.name, self.resolver) for b in bodies}

    # ---------------------------------------------------------------- constants
    def const_ref(self, kind, val):
        key = (kind, val)
        if key not in self.consts:
            self.consts[key] = 'K%d' % len(self.consts)
        return self.consts[key]

    # ---------------------------------------------------------------- places
    @staticmethod
    def flatten(p):
        projs = []
        while p[0] != 'local':
            if p[0] == 'deref':
                projs.append(('deref',))
                p = p[1]
            elif p[0] == 'field':
                projs.append(('field', p[2]))
                p = p[1]
            elif p[0] == 'downcast':
                projs.append(('downcast', p[2]))
                p = p[1]
            elif p[0] == 'index':
                projs.append(('index', p[2]))
                p = p[1]
            elif p[0] == 'constindex':
                projs.append(('constindex', p[2]))
                p = p[1]
            else:
                raise mp.ParseError('place kind %r' % (p,))
        projs.reverse()
        return p[1], projs

    def path_elems(self, projs):
        """python expressions for the path elements of non-deref projections"""
        out = []
        prev_down = False
        for pr in projs:
            if pr[0] == 'field':
                out.append(str(pr[1] + 1 if prev_down else pr[1]))
                prev_down = False
            elif pr[0] == 'downcast':
                prev_down = True
            elif pr[0] == 'index':
                out.append('L[%d]' % pr[1])
                prev_down = False
            elif pr[0] == 'constindex':
                out.append(str(pr[1]))
                prev_down = False
            else:
                raise mp.ParseError('deref in path')
        return out

    def read_projs(self, local, projs):
        e = 'L[%d]' % local
        prev_down = False
        for pr in projs:
            if pr[0] == 'deref':
                e = '%s.get()' % e
                prev_down = False
            elif pr[0] == 'field':
                e = '%s[%d]' % (e, pr[1] + 1 if prev_down else pr[1])
                prev_down = False
            elif pr[0] == 'downcast':
                prev_down = True
            elif pr[0] == 'index':
                e = 'IDX(%s, L[%d])' % (e, pr[1])
                prev_down = False
            elif pr[0] == 'constindex':
                e = 'IDX(%s, %d)' % (e, pr[1])
                prev_down = False
        return e

    def read_place(self, p):
        local, projs = self.flatten(p)
        return self.read_projs(local, projs)

    @staticmethod
    def last_deref(projs):
        for i in range(len(projs) - 1, -1, -1):
            if projs[i][0] == 'deref':
                return i
        return -1

    def write_place(self, p, val):
        if p[0] == 'field' and len(p) > 3 and p[3] is not None and p[3].strip().endswith('JobState'):
            # write barrier (C17): every assignment to a NodeInfo.state place is shown to the state hook
            # together with the value it overwrites
            return '_sw = %s; rt.state_write(%s, _sw); %s' % (val, self.read_place(p), self._write_place(p, '_sw'))
        return self._write_place(p, val)

    def _write_place(self, p, val):
        local, projs = self.flatten(p)
        k = self.last_deref(projs)
        if k < 0:
            path = self.path_elems(projs)
            if not path:
                return 'L[%d] = %s' % (local, val)
            return 'L[%d] = UPD(L[%d], (%s,), 0, %s)' % (local, local, ', '.join(path), val)
        base = self.read_projs(local, projs[:k])
        path = self.path_elems(projs[k + 1:])
        if not path:
            return '%s.set(%s)' % (base, val)
        return '%s.setp((%s,), %s)' % (base, ', '.join(path), val)

    def ref_place(self, p):
        local, projs = self.flatten(p)
        k = self.last_deref(projs)
        if k < 0:
            path = self.path_elems(projs)
            return 'Ref(L, %d, (%s))' % (local, ''.join(x + ', ' for x in path))
        base = self.read_projs(local, projs[:k])
        path = self.path_elems(projs[k + 1:])
        if not path:
            return base
        return '%s.sub((%s,))' % (base, ', '.join(path))

    # ---------------------------------------------------------------- operands
    def operand(self, op):
        if op[0] in ('copy', 'move'):
            return self.read_place(op[1])
        c = op[1]
        if c[0] == 'bool':
            return 'True' if c[1] else 'False'
        if c[0] == 'unit':
            return '()'
        if c[0] == 'int':
            return str(c[1])
        if c[0] == 'str':
            return self.const_ref('str', c[1])
        if c[0] == 'bytes':
            return self.const_ref('bytes', c[1])
        if c[0] == 'char':
            return repr(c[1])
        if c[0] == 'zst':
            return '()'
        if c[0] == 'path':
            return self.path_const(c[1])
        raise mp.ParseError('const %r' % (c,))

    def path_const(self, s):
        if 'promoted[' in s:
            cn = canon_path(s)
            b = self.by_canon.get(cn)
            if b is None:
                return 'rt.unsupported(%r)' % ('promoted ' + s)
            return 'PROM(%s)' % self.pyname[id(b)]
        cs = canon_path(s)
        # unit enum variant used as a constant
        segs = cs.split('::')
        if len(segs) >= 2 and segs[-2] in self.enums and segs[-1] in self.enums[segs[-2]]:
            return '(%d,)' % self.enums[segs[-2]].index(segs[-1])
        if cs in ('log::STATIC_MAX_LEVEL', 'STATIC_MAX_LEVEL'):
            return '(5,)'
        m = re.match(r'(usize|u32|u64|isize|i32|i64)::MAX$', cs)
        if m:
            bits = INT_BITS[m.group(1)]
            return str((1 << (bits - (1 if m.group(1)[0] == 'i' else 0))) - 1)
        # function item
        b = self.by_canon.get(cs)
        if b is not None:
            return self.pyname[id(b)]
        mdl = self.model_expr(s)
        if mdl is not None:
            return mdl
        nc = getattr(self, 'named_consts', {}).get(segs[-1])
        if nc is not None:
            return nc
        return 'rt.FnItem(%r)' % s

    # ---------------------------------------------------------------- rvalues
    def int_type_of_local(self, body, place):
        local, projs = self.flatten(place)
        t = body.locals.get(local, '')
        return t

    def rvalue(self, body, lhs, rv):
        k = rv[0]
        if k == 'use':
            return self.operand(rv[1])
        if k == 'ref':
            return self.ref_place(rv[2])
        if k == 'discr':
            return '%s[0]' % self.read_place(rv[1])
        if k == 'cast':
            v = self.operand(rv[1])
            ty = rv[2].strip()
            kind = rv[3]
            if kind.startswith('IntToInt'):
                if ty in INT_BITS:
                    if ty[0] == 'u':
                        return '((%s) & %d)' % (v, (1 << INT_BITS[ty]) - 1)
                    return 'rt.to_signed(%s, %d)' % (v, INT_BITS[ty])
                raise mp.ParseError('cast to %r' % ty)
            if kind.startswith(('PointerCoercion', 'PtrToPtr', 'Transmute')):
                return v
            raise mp.ParseError('cast kind %r' % kind)
        if k == 'binop':
            op = rv[1]
            a = self.operand(rv[2])
            b = self.operand(rv[3])
            simple = {'Lt': '<', 'Le': '<=', 'Gt': '>', 'Ge': '>=', 'Eq': '==', 'Ne': '!=', 'BitAnd': '&',
                      'BitOr': '|', 'BitXor': '^'}
            if op in simple:
                return '(%s %s %s)' % (a, simple[op], b)
            ty = self.int_type_of_local(body, lhs)
            if op in ('AddWithOverflow', 'SubWithOverflow', 'MulWithOverflow'):
                m = re.match(r'\((\w+), bool\)$', ty)
                if not m or m.group(1) not in INT_BITS:
                    raise mp.ParseError('overflow op type %r' % ty)
                it = m.group(1)
                return 'rt.ovf(%r, %s, %s, %d, %s)' % (op[:3], a, b, INT_BITS[it], 'True' if it[0] == 'i' else 'False')
            if op in ('Add', 'Sub', 'Mul', 'AddUnchecked', 'SubUnchecked', 'MulUnchecked'):
                if ty not in INT_BITS:
                    raise mp.ParseError('arith op type %r' % ty)
                return 'rt.wrap(%r, %s, %s, %d, %s)' % (op[:3], a, b, INT_BITS[ty], 'True' if ty[0] == 'i' else 'False')
            if op in ('Div', 'Rem'):
                if ty not in INT_BITS:
                    raise mp.ParseError('arith op type %r' % ty)
                return 'rt.divrem(%r, %s, %s, %d, %s)' % (op, a, b, INT_BITS[ty], 'True' if ty[0] == 'i' else 'False')
            if op in ('Shl', 'Shr', 'ShlUnchecked', 'ShrUnchecked'):
                if ty not in INT_BITS:
                    raise mp.ParseError('shift op type %r' % ty)
                return 'rt.shift(%r, %s, %s, %d, %s)' % (op[:3], a, b, INT_BITS[ty], 'True' if ty[0] == 'i' else 'False')
            if op == 'Cmp':
                return 'rt.cmp3(%s, %s)' % (a, b)
            raise mp.ParseError('binop %r' % op)
        if k == 'unop':
            a = self.operand(rv[2])
            if rv[1] == 'Not':
                ty = self.int_type_of_local(body, lhs)
                if ty == 'bool':
                    return '(not %s)' % a
                if ty in INT_BITS and ty[0] == 'u':
                    return '((~%s) & %d)' % (a, (1 << INT_BITS[ty]) - 1)
                raise mp.ParseError('Not on %r' % ty)
            if rv[1] == 'Neg':
                ty = self.int_type_of_local(body, lhs)
                if ty in INT_BITS and ty[0] == 'i':
                    return 'rt.to_signed(-(%s), %d)' % (a, INT_BITS[ty])
                raise mp.ParseError('Neg on %r' % ty)
            if rv[1] == 'PtrMetadata':
                return 'rt.seq_len(%s)' % a
            raise mp.ParseError('unop %r' % rv[1])
        if k == 'tuple':
            ops = [self.operand(o) for o in rv[1]]
            return '(%s)' % ''.join(o + ', ' for o in ops)
        if k == 'array':
            ops = [self.operand(o) for o in rv[1]]
            return '(%s)' % ''.join(o + ', ' for o in ops)
        if k == 'adt':
            return self.adt(rv)
        raise mp.ParseError('rvalue kind %r' % k)

    def adt(self, rv):
        path, fields, named = rv[1], rv[2], rv[3]
        ops = [self.operand(o) for _, o in fields]
        if path.startswith('{closure@') or path.startswith('{coroutine'):
            return '(%s)' % ''.join(o + ', ' for o in ops)
        cs = canon_path(path)
        segs = cs.split('::')
        if len(segs) >= 2 and segs[-2] in self.enums and segs[-1] in self.enums[segs[-2]]:
            idx = self.enums[segs[-2]].index(segs[-1])
            return '(%d, %s)' % (idx, ''.join(o + ', ' for o in ops))
        if segs[-1] in self.structs:
            return '(%s)' % ''.join(o + ', ' for o in ops)
        if len(segs) == 1 or segs[-2] not in self.enums:
            owners = [e for e, vs in STD_ENUMS.items() if segs[-1] in vs]
            if len(owners) == 1 and segs[-1] not in self.structs:
                return '(%d, %s)' % (self.enums[owners[0]].index(segs[-1]), ''.join(o + ', ' for o in ops))
        return 'rt.unsupported(%r)' % ('aggregate ' + path)

    # ---------------------------------------------------------------- calls
    def model_expr(self, callee):
        from . import modelmap
        r = modelmap.lookup(callee, self)
        return r

    def call_expr(self, callee, args):
        if isinstance(callee, tuple):
            f = self.operand(callee[1])
            return '%s(%s)' % (f, ', '.join(args))
        cs = canon_path(callee)
        # strategy dispatch
        m = re.match(r'<(?:T|dyn PPGEvaluatorStrategy) as PPGEvaluatorStrategy>::(\w+)$', cs)
        if m:
            return 'rt.strategy_call(%r, %s)' % (m.group(1), ', '.join(args))
        b = self.by_canon.get(cs)
        if b is not None and b.kind == 'fn':
            return '%s(%s)' % (self.pyname[id(b)], ', '.join(args))
        mdl = self.model_expr(callee)
        if mdl is not None:
            self.used_models.add(mdl.split('(')[0])
            if mdl.endswith(')'):     # partial application with extras: M.f(extra)(args)
                return '%s(%s)' % (mdl, ', '.join(args))
            return '%s(%s)' % (mdl, ', '.join(args))
        self.unsupported_callees.add(callee)
        return 'rt.unsupported(%r)' % callee

    def closure_fn(self, closure_type):
        b = self.by_closure.get(closure_type)
        if b is None:
            return None
        byref = b.args[0][1].startswith('&')
        return self.pyname[id(b)], byref

    # ---------------------------------------------------------------- bodies
    def gen_body(self, b):
        fn = self.pyname[id(b)]
        nloc = max(list(b.locals.keys()) + [0]) + 1
        lines = []
        maxbb = max(b.blocks.keys()) if b.blocks else 0
        names = []
        for bbn in range(maxbb + 1):
            stmts = b.blocks.get(bbn)
            if stmts is None:
                names.append('None')
                continue
            bl = ['def %s_b%d(L):' % (fn, bbn)]
            try:
                body_lines = self.gen_block(b, stmts)
            except mp.ParseError as e:
                body_lines = ['rt.unsupported(%r)' % ('codegen: ' + str(e))]
            for s in body_lines:
                bl.append('    ' + s)
            lines.extend(bl)
            names.append('%s_b%d' % (fn, bbn))
        lines.append('%s_B = (%s,)' % (fn, ', '.join(names)))
        lines.append('%s_C = bytearray(%d)' % (fn, maxbb + 1))
        params = ', '.join('a%d' % n for n, _ in b.args)
        lines.append('def %s(%s):' % (fn, params))
        lines.append('    L = [None] * %d' % nloc)
        for n, _ in b.args:
            lines.append('    L[%d] = a%d' % (n, n))
        lines.append('    B = %s_B; C = %s_C; bb = 0; n = 0' % (fn, fn))
        lines.append('    while bb >= 0:')
        lines.append('        C[bb] = 1; n += 1')
        lines.append('        bb = B[bb](L)')
        lines.append('    rt.tick(n)')
        lines.append('    return L[0]')
        lines.append('%s.__name__ = %r' % (fn, self.canon_of[id(b)]))
        lines.append('BODIES[%r] = %s' % (self.canon_of[id(b)], fn))
        lines.append('COVER[%r] = %s_C' % (self.canon_of[id(b)], fn))
        return lines

    def gen_block(self, b, stmts):
        out = []
        terminated = False
        for s in stmts:
            k = s[0]
            if k == 'nop':
                continue
            if k == 'assign':
                out.append(self.write_place(s[1], self.rvalue(b, s[1], s[2])))
            elif k == 'call':
                args = [self.operand(a) for a in s[3]]
                ce = self.call_expr(s[2], args)
                if s[4] is None:
                    out.append(ce)
                    out.append('raise rt.Diverged(%r)' % (s[2] if isinstance(s[2], str) else 'indirect'))
                else:
                    out.append(self.write_place(s[1], ce))
                    out.append('return %d' % s[4])
                terminated = True
            elif k == 'goto':
                out.append('return %d' % s[1])
                terminated = True
            elif k == 'drop':
                out.append('return %d' % s[1])
                terminated = True
            elif k == 'return':
                out.append('return -1')
                terminated = True
            elif k == 'unreachable':
                out.append('raise rt.Diverged("unreachable")')
                terminated = True
            elif k == 'resume':
                out.append('raise rt.Diverged("resume")')
                terminated = True
            elif k == 'switch':
                v = self.operand(s[1])
                out.append('v = %s' % v)
                first = True
                other = None
                for val, tgt in s[2]:
                    if val is None:
                        other = tgt
                        continue
                    out.append('%s v == %d: return %d' % ('if' if first else 'elif', val, tgt))
                    first = False
                if other is None:
                    out.append('raise rt.Diverged("switch fallthrough")')
                else:
                    out.append('return %d' % other)
                terminated = True
            elif k == 'assert':
                cond = self.operand(s[1])
                out.append('if (%s) != %s: rt.assert_fail(%r)' % (cond, 'True' if s[2] else 'False', s[3][:200]))
                out.append('return %d' % s[4])
                terminated = True
            else:
                raise mp.ParseError('stmt kind %r' % k)
        if not terminated:
            out.append('raise rt.Diverged("block without terminator")')
        return out

    def generate(self):
        body_lines = []
        for b in self.bodies:
            body_lines.extend(self.gen_body(b))
            body_lines.append('')
        head = ['# generated by mir2py -- do not edit',
                'from mirsym import rt',
                'from mirsym import models as M',
                'from mirsym.rt import Ref, IDX, UPD, PROM',
                'BODIES = {}',
                'COVER = {}',
                '']
        for (kind, val), name in self.consts.items():
            head.append('%s = rt.mkref(%r)' % (name, val))
        head.append('')
        tail = ['ENUMS = %r' % {k: v for k, v in self.enums.items() if k not in STD_ENUMS},
                'ENUM_PAYLOADS = %r' % ENUM_PAYLOADS,
                'STRUCT_FIELDS = %r' % STRUCT_FIELDS,
                'UNSUPPORTED_CALLEES = %r' % sorted(self.unsupported_callees),
                'PARSE_ERRORS = %r' % [(h[:160], e[:200]) for h, e in self.errors]]
        return '\n'.join(head + body_lines + tail) + '\n'


NAMED_CONST_RE = re.compile(r'^const (?:[\w:<>]+::)?(\w+): (\w+) = const (.+);$', re.M)


def named_constants(mir_text):
    """`const NAME: usize = const 2_usize;` items of the dump (constants declared in the crate): last path segment -> python
    literal.  Only scalar literals; anything else stays an unsupported operand."""
    out = {}
    for m in NAMED_CONST_RE.finditer(mir_text):
        name, ty, val = m.group(1), m.group(2), m.group(3).strip()
        mm = re.match(r'^(-?\d+)_(?:[ui]\d+|[ui]size)$', val)
        if mm:
            v = mm.group(1)
        elif val in ('true', 'false'):
            v = 'True' if val == 'true' else 'False'
        else:
            continue
        if name in out and out[name] != v:
            out[name] = None         # ambiguous short name: leave unsupported
        else:
            out[name] = v
    return {k: v for k, v in out.items() if v is not None}


def generate_module(mir_text, src_root):
    bodies, errors = mp.parse_all(mir_text, lambda h: True)
    src_files = [os.path.join(src_root, 'src', f) for f in ('engine.rs', 'lib.rs')]
    g = Gen(bodies, errors, src_root, src_files)
    g.named_consts = named_constants(mir_text)
    return g.generate(), g

"""Differential validation of the MIR executor + library models against the real compiled crate:
seeded random chains of evaluations (edits, faults, aborts, delayed cleanup acks, out-of-order completion,
occasional protocol misuse) are driven on the generated engine, recorded as scenarios, replayed natively,
and the traces (results, all query sets, per-job states, per-edge flags, histories) must be identical."""
import random, sys, time
from . import rt, scenario as S, engine_api as E
from .rt import RustPanic

KINDS = ['Always', 'Output', 'Ephemeral']


def random_graph(rng, nmax):
    n = rng.randint(1, nmax)
    ids = ['J%d' % i for i in range(n)]
    if rng.random() < 0.15:
        # a few multi-output style ids
        ids = [i if rng.random() < 0.6 else i + ':::' + i + 'b' for i in ids]
    kinds = [rng.choice(KINDS) for _ in ids]
    edges = []
    p = rng.choice([0.2, 0.4, 0.7])
    for a in range(n):
        for b in range(a + 1, n):
            if rng.random() < p:
                edges.append((ids[b], ids[a]))       # b depends on a
    return list(zip(ids, kinds)), edges


def drive(mod, rng, sc, outputs_pool, fail_p, abort_p, misuse_p):
    """drive one evaluation on mirsym, choosing random legal (and sometimes illegal) actions; fills sc.events.
    returns (new_history dict or None, set of successfully executed jobs)"""
    rt.CTX.oracle = None
    eng = S.make_engine(mod, sc)
    ev = sc.events
    done_ok = set()

    def call(evt, f):
        ev.append(evt)
        try:
            f()
            return True
        except E.EngineError:
            return False
    try:
        if not call(('startup',), eng.event_startup):
            return None, done_ok
        ids = [n for n, _ in sc.nodes]
        steps = 0
        while True:
            fin = eng.is_finished()
            if fin:
                break
            steps += 1
            if steps > 200:
                return None, done_ok
            ready = sorted(eng.query_ready_to_run())
            running = sorted(eng.query_jobs_running())
            cleanup = sorted(eng.query_ready_for_cleanup())
            if rng.random() < misuse_p:
                j = rng.choice(ids)
                k = rng.choice(['run', 'ok', 'fail', 'cleanup', 'startup'])
                if k == 'run' and j not in ready:
                    call(('run', j), lambda: eng.event_now_running(j))
                elif k == 'ok' and j not in running:
                    call(('ok', j, 'x'), lambda: eng.event_job_finished_success(j, 'x'))
                elif k == 'fail' and j not in running:
                    call(('fail', j), lambda: eng.event_job_finished_failure(j))
                elif k == 'cleanup' and j not in cleanup:
                    call(('cleanup', j), lambda: eng.event_job_cleanup_done(j))
                elif k == 'startup':
                    call(('startup',), eng.event_startup)
                continue
            if rng.random() < abort_p:
                if running and rng.random() < 0.5:
                    for j in running:
                        call(('fail', j), lambda: eng.event_job_finished_failure(j))
                call(('abort',), eng.abort_remaining)
                continue
            acts = [('run', j) for j in ready] + [('fin', j) for j in running] + [('cleanup', j) for j in cleanup]
            if not acts:
                # stall: nothing ready or running although not finished -> record and stop
                return None, done_ok
            a = rng.choice(acts)
            if a[0] == 'run':
                call(('run', a[1]), lambda: eng.event_now_running(a[1]))
            elif a[0] == 'cleanup':
                call(('cleanup', a[1]), lambda: eng.event_job_cleanup_done(a[1]))
            else:
                j = a[1]
                if rng.random() < fail_p:
                    call(('fail', j), lambda: eng.event_job_finished_failure(j))
                else:
                    o = rng.choice(outputs_pool)
                    if call(('ok', j, o), lambda: eng.event_job_finished_success(j, o)):
                        done_ok.add(j)
            if rng.random() < 0.1 and ids:
                ev.append(('output', rng.choice(ids)))
        ev.append(('history',))
        try:
            h = eng.new_history()
            return dict(h.d), done_ok
        except E.EngineError:
            return None, done_ok
    except RustPanic:
        return None, done_ok


def edit(rng, nodes, edges, nmax):
    nodes = list(nodes)
    edges = list(edges)
    r = rng.random()
    ids = [n for n, _ in nodes]
    if r < 0.2 and len(nodes) < nmax:
        new = 'N%d' % rng.randint(0, 99)
        if new not in ids:
            pos = rng.randint(0, len(nodes))
            nodes.insert(pos, (new, rng.choice(KINDS)))
            for other in ids:
                if rng.random() < 0.3:
                    # keep acyclic: new node either upstream of all chosen or downstream of all chosen
                    edges.append((other, new) if pos == 0 else (new, other))
            if pos != 0:
                # new depends on others only: fine. if pos == 0 others depend on new: fine (acyclic either way)
                pass
    elif r < 0.4 and len(nodes) > 1:
        victim = rng.choice(ids)
        nodes = [(n, k) for n, k in nodes if n != victim]
        edges = [(d, u) for d, u in edges if d != victim and u != victim]
    elif r < 0.55 and edges:
        edges.pop(rng.randrange(len(edges)))
    elif r < 0.7 and len(ids) >= 2:
        a, b = rng.sample(range(len(ids)), 2)
        a, b = min(a, b), max(a, b)
        e = (ids[b], ids[a])
        # only add if it keeps the order-by-position DAG property w.r.t. existing edges
        pos = {n: i for i, n in enumerate(ids)}
        if e not in edges and all(pos[d] > pos[u] for d, u in edges + [e]):
            edges.append(e)
    elif r < 0.8 and nodes:
        i = rng.randrange(len(nodes))
        nodes[i] = (nodes[i][0], rng.choice(KINDS))
    return nodes, edges


def is_acyclic(nodes, edges):
    ids = [n for n, _ in nodes]
    indeg = {n: 0 for n in ids}
    for d, u in edges:
        indeg[d] += 1
    q = [n for n in ids if indeg[n] == 0]
    seen = 0
    while q:
        x = q.pop()
        seen += 1
        for d, u in edges:
            if u == x:
                indeg[d] -= 1
                if indeg[d] == 0:
                    q.append(d)
    return seen == len(ids)


def gen_chain(mod, rng, idx, nmax=5):
    """returns list of scenarios (one per evaluation)"""
    nodes, edges = random_graph(rng, nmax)
    mode = rng.choice(['ident', 'ident', 'rel', 'prod'])
    pool = ['v%d' % i for i in range(rng.choice([1, 2, 4]))]
    classes = {}
    if mode != 'ident':
        # values v0.. with class = value up to a "timestamp" suffix
        pool = [p + s for p in pool[:2] for s in ('.t1', '.t2')]
        classes = {v: v.split('.')[0] for v in pool}
    hist = {}
    present = set()
    out = []
    nev = rng.randint(1, 4)
    fail_p = rng.choice([0.0, 0.0, 0.2, 0.5])
    abort_p = rng.choice([0.0, 0.0, 0.05, 0.15])
    for k in range(nev):
        shuffled_nodes = list(nodes)
        shuffled_edges = list(edges)
        if rng.random() < 0.3:
            rng.shuffle(shuffled_nodes)
            rng.shuffle(shuffled_edges)
        sc = S.Scenario('c%d_e%d' % (idx, k), mode, hist, sorted(present), classes, {}, shuffled_nodes, shuffled_edges)
        h, ok = drive(mod, rng, sc, pool, fail_p, abort_p, misuse_p=0.03)
        out.append(sc)
        if h is None:
            break
        hist = h
        kinds = dict(nodes)
        for j in ok:
            if kinds.get(j) == 'Output':
                present.add(j)
        # delete some outputs, drop some history occasionally
        for j in list(present):
            if rng.random() < 0.15:
                present.discard(j)
        for _ in range(rng.choice([0, 0, 1, 2])):
            n2, e2 = edit(rng, nodes, edges, nmax)
            if is_acyclic(n2, e2) and n2:
                nodes, edges = n2, e2
    return out


def run(mod, replay_bin, n_chains, seed, nmax=5, log=sys.stderr):
    """returns dict(chains=, scenarios=, events=, mismatches=[...])"""
    rng = random.Random(seed)
    scs = []
    t0 = time.time()
    for i in range(n_chains):
        scs.extend(gen_chain(mod, rng, i, nmax))
    t1 = time.time()
    native = S.run_native(replay_bin, scs)
    t2 = time.time()
    mism = []
    events = 0
    for sc in scs:
        a = S.run_mirsym(mod, sc)
        b = native.get(sc.name)
        events += len(sc.events)
        d = S.diff_traces(a, b or [])
        if d is not None:
            mism.append((sc, d))
    t3 = time.time()
    print('[difftest] %d chains, %d scenarios, %d events; gen %.1fs native %.1fs mirsym %.1fs; mismatches %d' % (
        n_chains, len(scs), events, t1 - t0, t2 - t1, t3 - t2, len(mism)), file=log)
    return {'chains': n_chains, 'scenarios': len(scs), 'events': events, 'mismatches': mism}


if __name__ == '__main__':
    from . import build
    mod, info = build.load_engine()
    rb = build.build_replay()
    n = int(sys.argv[1]) if len(sys.argv) > 1 else 200
    seed = int(sys.argv[2]) if len(sys.argv) > 2 else 1
    r = run(mod, rb, n, seed)
    for sc, d in r['mismatches'][:5]:
        print('MISMATCH', sc.name, d)
        print(sc.to_text())

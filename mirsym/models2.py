"""More library models (std / petgraph API the current engine source does not use but a changed source plausibly does),
so that a modified /repo is still executable instead of ending in `INCONCLUSIVE: unsupported callee`.
Same conventions as models.py; everything is written against the documented API."""
from .rt import (Ref, RVec, D, mkref, RustPanic, Unsupported, Out, str_eq, decide, term_of)
from . import rt
from .models import (NONE, Some, Ok, Err, It, ListIt, SliceIt, EnumIt, drain_py, RHashMap, RHashSet, key_of, cstr, KeyCell,
                     PresentItem)

LESS, EQUAL, GREATER = (-1 & 0xff,), (0,), (1,)     # core::cmp::Ordering is repr(i8): Less = -1, Equal = 0, Greater = 1


def _call(fn, byref, cell, *args):
    return fn(Ref(cell, 0, ()) if byref else cell[0], *args)


def _val(x):
    """value behind any number of references"""
    return D(x)


# =========================================================================== iterator consumers / adaptors
def it_any(fn, byref):
    def f(itref, clo):
        it = D(itref)
        cell = [clo]
        while True:
            x = it.next()
            if x[0] == 0:
                return False
            if _call(fn, byref, cell, x[1]):
                return True
    return f


def it_all(fn, byref):
    def f(itref, clo):
        it = D(itref)
        cell = [clo]
        while True:
            x = it.next()
            if x[0] == 0:
                return True
            if not _call(fn, byref, cell, x[1]):
                return False
    return f


def it_find(fn, byref):
    def f(itref, clo):
        it = D(itref)
        cell = [clo]
        while True:
            x = it.next()
            if x[0] == 0:
                return NONE
            if _call(fn, byref, cell, mkref(x[1])):
                return x
    return f


def it_find_map(fn, byref):
    def f(itref, clo):
        it = D(itref)
        cell = [clo]
        while True:
            x = it.next()
            if x[0] == 0:
                return NONE
            y = _call(fn, byref, cell, x[1])
            if y[0] == 1:
                return y
    return f


def it_fold(fn, byref):
    def f(it, init, clo):
        cell = [clo]
        acc = init
        for x in drain_py(D(it)):
            acc = _call(fn, byref, cell, acc, x)
        return acc
    return f


def it_for_each(fn, byref):
    def f(it, clo):
        cell = [clo]
        for x in drain_py(D(it)):
            _call(fn, byref, cell, x)
        return ()
    return f


class TakeWhileIt(It):
    def __init__(self, it, fn, byref, clo):
        self.it, self.fn, self.byref, self.cell, self.done = it, fn, byref, [clo], False

    def next(self):
        if self.done:
            return NONE
        x = self.it.next()
        if x[0] == 0 or not _call(self.fn, self.byref, self.cell, mkref(x[1])):
            self.done = True
            return NONE
        return x


def it_take_while(fn, byref):
    return lambda it, clo: TakeWhileIt(it, fn, byref, clo)


class SkipWhileIt(It):
    def __init__(self, it, fn, byref, clo):
        self.it, self.fn, self.byref, self.cell, self.started = it, fn, byref, [clo], False

    def next(self):
        while True:
            x = self.it.next()
            if x[0] == 0 or self.started:
                return x
            if not _call(self.fn, self.byref, self.cell, mkref(x[1])):
                self.started = True
                return x


def it_skip_while(fn, byref):
    return lambda it, clo: SkipWhileIt(it, fn, byref, clo)


class FlatMapIt(It):
    def __init__(self, it, fn, byref, clo):
        self.it, self.fn, self.byref, self.cell, self.cur = it, fn, byref, [clo], None

    def next(self):
        while True:
            if self.cur is not None:
                x = self.cur.next()
                if x[0] == 1:
                    return x
                self.cur = None
            y = self.it.next()
            if y[0] == 0:
                return NONE
            inner = _call(self.fn, self.byref, self.cell, y[1])
            self.cur = into_iter_any(inner)


def it_flat_map(fn, byref):
    return lambda it, clo: FlatMapIt(it, fn, byref, clo)


def into_iter_any(v):
    v = D(v) if type(v) is Ref else v
    if isinstance(v, It):
        return v
    if type(v) is RVec:
        return ListIt(list(v.items))
    if type(v) is tuple and len(v) in (1, 2) and v[0] in (0, 1):      # Option as IntoIterator
        return ListIt([v[1]] if v[0] == 1 else [])
    raise Unsupported('into_iter of %r' % (type(v),))


def ne_of(eq):
    return lambda a, b: not eq(a, b)


def box_new(x):
    # Box<T> = (Unique<T>(NonNull<T>(ptr)), alloc): MIR dereferences a Box through ((b.0).0 as *const T)
    return ((mkref(x),),)


def box_new_uninit():
    # Box<MaybeUninit<[T; N]>>: the `vec![a, b, ..]` expansion writes the array through
    # ((*ptr).1: ManuallyDrop<..>).0: MaybeDangling<..>).0 and then calls box_assume_init_into_vec_unsafe
    return ((Ref([((), ((None,),))], 0, ()),),)


def box_assume_init_into_vec(b):
    arr = b[0][0].get()[1][0][0]
    if arr is None:
        raise Unsupported('vec! literal: array was never written')
    return RVec(list(arr))


def array_into_iter(a):
    return ListIt(list(a))


def _num(x):
    v = D(x)
    if type(v) is not int:
        raise Unsupported('numeric iterator operation on %r' % (type(v),))
    return v


def it_sum(it):
    return sum(_num(x) for x in drain_py(D(it)))


def _ordkey(x):
    v = D(x)
    if type(v) is int:
        return v
    if type(v) is str:
        return v.encode('utf-8')
    if type(v) is tuple:
        return tuple(_ordkey(y) for y in v)
    raise Unsupported('ordering of %r' % (type(v),))


def it_max(it):
    xs = drain_py(D(it))
    if not xs:
        return NONE
    best = xs[0]
    for x in xs[1:]:
        if _ordkey(x) >= _ordkey(best):      # Iterator::max returns the last maximum
            best = x
    return (1, best)


def it_min(it):
    xs = drain_py(D(it))
    if not xs:
        return NONE
    best = xs[0]
    for x in xs[1:]:
        if _ordkey(x) < _ordkey(best):       # Iterator::min returns the first minimum
            best = x
    return (1, best)


def it_max_by_key(fn, byref):
    def f(it, clo):
        cell = [clo]
        xs = drain_py(D(it))
        if not xs:
            return NONE
        best, bk = xs[0], _ordkey(_call(fn, byref, cell, mkref(xs[0])))
        for x in xs[1:]:
            k = _ordkey(_call(fn, byref, cell, mkref(x)))
            if k >= bk:
                best, bk = x, k
        return (1, best)
    return f


def it_min_by_key(fn, byref):
    def f(it, clo):
        cell = [clo]
        xs = drain_py(D(it))
        if not xs:
            return NONE
        best, bk = xs[0], _ordkey(_call(fn, byref, cell, mkref(xs[0])))
        for x in xs[1:]:
            k = _ordkey(_call(fn, byref, cell, mkref(x)))
            if k < bk:
                best, bk = x, k
        return (1, best)
    return f


def it_last(it):
    xs = drain_py(D(it))
    return (1, xs[-1]) if xs else NONE


def it_nth(itref, n):
    it = D(itref)
    x = NONE
    for _ in range(n + 1):
        x = it.next()
        if x[0] == 0:
            return NONE
    return x


class ChainIt(It):
    def __init__(self, a, b):
        self.a, self.b = a, b

    def next(self):
        if self.a is not None:
            x = self.a.next()
            if x[0] == 1:
                return x
            self.a = None
        return self.b.next()


def it_chain(a, b):
    return ChainIt(into_iter_any(a), into_iter_any(b))


class ZipIt(It):
    def __init__(self, a, b):
        self.a, self.b = a, b

    def next(self):
        x = self.a.next()
        if x[0] == 0:
            return NONE
        y = self.b.next()
        if y[0] == 0:
            return NONE
        return (1, (x[1], y[1]))


def it_zip(a, b):
    return ZipIt(into_iter_any(a), into_iter_any(b))


class SkipIt(It):
    def __init__(self, it, n):
        self.it, self.n = it, n

    def next(self):
        while self.n > 0:
            self.n -= 1
            if self.it.next()[0] == 0:
                return NONE
        return self.it.next()


def it_skip(it, n):
    return SkipIt(it, n)


class TakeIt(It):
    def __init__(self, it, n):
        self.it, self.n = it, n

    def next(self):
        if self.n <= 0:
            return NONE
        self.n -= 1
        return self.it.next()


def it_take(it, n):
    return TakeIt(it, n)


class DerefIt(It):
    """cloned() / copied()"""

    def __init__(self, it):
        self.it = it

    def next(self):
        x = self.it.next()
        if x[0] == 0:
            return NONE
        v = x[1].get() if type(x[1]) is Ref else x[1]
        c = getattr(v, 'clone', None)
        return (1, c() if (c is not None and type(v) in (RVec, RHashMap, RHashSet)) else v)

    def rev(self):
        return DerefIt(self.it.rev())


def it_cloned(it):
    return DerefIt(it)


class PeekIt(It):
    def __init__(self, it):
        self.it = it
        self.buf = None

    def next(self):
        if self.buf is not None:
            x = self.buf[0]
            self.buf = None
            return x
        return self.it.next()

    def peek(self):
        if self.buf is None:
            self.buf = [self.it.next()]
        return self.buf


def it_peekable(it):
    return PeekIt(it)


def peekable_peek(r):
    p = D(r)
    b = p.peek()
    if b[0][0] == 0:
        return NONE
    return (1, Ref(b, 0, (1,)))


def range_inclusive_new(a, b):
    return (a, b, False)       # start, end, exhausted


def range_inclusive_next(r):
    start, end, ex = r.get()
    if ex or start > end:
        return NONE
    if start == end:
        r.set((start, end, True))
    else:
        r.set((start + 1, end, False))
    return (1, start)


class RangeRevIt(It):
    def __init__(self, start, end):
        self.start, self.end = start, end

    def next(self):
        if self.start < self.end:
            self.end -= 1
            return (1, self.end)
        return NONE


def range_rev(r):
    v = r if type(r) is tuple else D(r)
    return RangeRevIt(v[0], v[1])


def range_rev_next(r):
    return D(r).next()


# =========================================================================== Vec / slices
def _items(r):
    v = D(r)
    if type(v) is RVec:
        return v.items
    if type(v) is tuple or type(v) is list:
        return v
    raise Unsupported('slice operation on %r' % (type(v),))


def _same(a, b):
    a = D(a)
    b = D(b)
    if type(a) in (str, Out) or type(b) in (str, Out):
        return str_eq(a, b)
    if type(a) is tuple and type(b) is tuple:
        return len(a) == len(b) and all(_same(x, y) for x, y in zip(a, b))
    return a == b


def slice_contains(r, x):
    for y in _items(r):
        if _same(y, x):
            return True
    return False


def slice_first(r):
    v = D(r)
    it = _items(r)
    if not it:
        return NONE
    return (1, Ref(v.items, 0, ()) if type(v) is RVec else r.sub((0,)))


def slice_last(r):
    v = D(r)
    it = _items(r)
    if not it:
        return NONE
    return (1, Ref(v.items, len(it) - 1, ()) if type(v) is RVec else r.sub((len(it) - 1,)))


def slice_get(r, i):
    v = D(r)
    it = _items(r)
    if type(i) is not int:
        raise Unsupported('slice get with non-index argument')
    if i >= len(it):
        return NONE
    return (1, Ref(v.items, i, ()) if type(v) is RVec else r.sub((i,)))


def vec_pop(r):
    v = D(r)
    if not v.items:
        return NONE
    return (1, v.items.pop())


def vec_insert(r, i, x):
    v = D(r)
    if i > len(v.items):
        raise RustPanic('insertion index (is %d) should be <= len (is %d)' % (i, len(v.items)))
    v.items.insert(i, x)
    return ()


def vec_remove(r, i):
    v = D(r)
    if i >= len(v.items):
        raise RustPanic('removal index (is %d) should be < len (is %d)' % (i, len(v.items)))
    return v.items.pop(i)


def vec_swap_remove(r, i):
    v = D(r)
    if i >= len(v.items):
        raise RustPanic('swap_remove index (is %d) should be < len (is %d)' % (i, len(v.items)))
    x = v.items[i]
    last = v.items.pop()
    if i < len(v.items):
        v.items[i] = last
    return x


def vec_extend(r, src):
    D(r).items.extend(drain_py(into_iter_any(src)))
    return ()


def vec_extend_from_slice(r, s):
    D(r).items.extend(list(_items(s)))
    return ()


def vec_clear(r):
    del D(r).items[:]
    return ()


def vec_truncate(r, n):
    del D(r).items[n:]
    return ()


def vec_with_capacity(n):
    return RVec()


def vec_capacity(r):
    raise Unsupported('Vec::capacity is implementation defined')


def vec_reserve(r, n):
    return ()


def vec_drain_full(r, _range):
    v = D(r)
    items = list(v.items)
    del v.items[:]
    return ListIt(items)


def vec_index_full(r, _range):
    return r


def slice_sort_any(r):
    v = D(r)
    v.items.sort(key=_ordkey)
    return ()


def slice_sort_by(fn, byref):
    import functools

    def f(r, clo):
        v = D(r)
        cell = [clo]

        def cmp(a, b):
            o = _call(fn, byref, cell, mkref(a), mkref(b))
            return -1 if o[0] == LESS[0] else (1 if o[0] == 1 else 0)
        v.items.sort(key=functools.cmp_to_key(cmp))
        return ()
    return f


def slice_sort_by_key(fn, byref):
    def f(r, clo):
        v = D(r)
        cell = [clo]
        v.items.sort(key=lambda x: _ordkey(_call(fn, byref, cell, mkref(x))))
        return ()
    return f


def ordering_reverse(o):
    return LESS if o[0] == 1 else (GREATER if o[0] == LESS[0] else EQUAL)


def ordering_then(a, b):
    return a if a[0] != 0 else b


def vec_dedup(r):
    v = D(r)
    out = []
    for x in v.items:
        if not out or not _same(out[-1], x):
            out.append(x)
    v.items[:] = out
    return ()


def slice_reverse(r):
    D(r).items.reverse()
    return ()


def slice_swap(r, a, b):
    it = D(r).items
    n = len(it)
    if a >= n or b >= n:
        raise RustPanic('index out of bounds: the len is %d but the index is %d' % (n, max(a, b)))
    it[a], it[b] = it[b], it[a]
    return ()


def slice_len(r):
    return len(_items(r))


def slice_is_empty(r):
    return len(_items(r)) == 0


def slice_join_any(r, sep):
    parts = [cstr(x) for x in _items(r)]
    return cstr(sep).join(parts)


def slice_concat(r):
    return ''.join(cstr(x) for x in _items(r))


# =========================================================================== HashMap / HashSet
def _present_keys(m):
    return [k for k in list(m.d.keys()) if m._resolve(k)]


def hashmap_get_mut(r, k):
    return D(r).get(key_of(k))


def hashmap_len(r):
    return len(_present_keys(D(r)))


def hashmap_is_empty(r):
    return len(_present_keys(D(r))) == 0


def hashmap_values(r):
    m = D(r)
    return ListIt([Ref(m.d, k, ()) for k in _present_keys(m)])


def hashmap_iter(r):
    m = D(r)
    return ListIt([(Ref(KeyCell(k), 0, ()), Ref(m.d, k, ())) for k in _present_keys(m)])


def hashmap_into_iter(m):
    m = D(m)
    return ListIt([(k, m.d[k]) for k in _present_keys(m)])


def hashmap_clear(r):
    m = D(r)
    m.d.clear()
    m.pres = None
    return ()


def hashmap_retain(fn, byref):
    def f(r, clo):
        m = D(r)
        cell = [clo]
        for k in _present_keys(m):
            if not _call(fn, byref, cell, Ref(KeyCell(k), 0, ()), Ref(m.d, k, ())):
                m.d.pop(k)
                if m.pres:
                    m.pres.pop(k, None)
        # entries decided absent are gone
        for k in [k for k in m.d if m.pres and k in m.pres and rt.CTX.oracle is not None and rt.CTX.oracle.pc.get(m.pres[k]) is False]:
            m.d.pop(k)
            m.pres.pop(k, None)
        return ()
    return f


def hashmap_extend(r, src):
    m = D(r)
    for kv in drain_py(into_iter_any(src)):
        m.insert(key_of(kv[0]), kv[1])
    return ()


def hashmap_get_key_value(r, k):
    m = D(r)
    kk = key_of(k)
    if m._resolve(kk):
        return (1, (Ref(KeyCell(kk), 0, ()), Ref(m.d, kk, ())))
    return NONE


def hashmap_entry(r, k):
    return ('entry', D(r), key_of(k))


def entry_or_insert(e, v):
    _, m, k = e
    if not m._resolve(k):
        m.insert(k, v)
    return Ref(m.d, k, ())


def entry_or_insert_with(fn, byref):
    def f(e, clo):
        _, m, k = e
        if not m._resolve(k):
            m.insert(k, _call(fn, byref, [clo]))
        return Ref(m.d, k, ())
    return f


def entry_or_default_string(e):
    return entry_or_insert(e, '')


def entry_or_default_usize(e):
    return entry_or_insert(e, 0)


def _set_keys(s):
    s = D(s)
    if getattr(s, 'sym', None):
        raise Unsupported('whole-set operation on a set with symbolic membership')
    return list(s.d.keys())


def hashset_len(r):
    return len(_set_keys(r))


def hashset_is_empty(r):
    return len(_set_keys(r)) == 0


def hashset_clear(r):
    D(r).d.clear()
    return ()


def hashset_retain(fn, byref):
    def f(r, clo):
        s = D(r)
        cell = [clo]
        for k in _set_keys(s):
            if not _call(fn, byref, cell, Ref([k], 0, ())):
                s.d.pop(k)
        return ()
    return f


def hashset_extend(r, src):
    s = D(r)
    for x in drain_py(into_iter_any(src)):
        s.insert(key_of(x))
    return ()


def hashset_union(a, b):
    ka = _set_keys(a)
    kb = [k for k in _set_keys(b) if k not in D(a).d]
    return ListIt([Ref([k], 0, ()) for k in ka + kb])


def hashset_difference(a, b):
    sb = D(b)
    return ListIt([Ref([k], 0, ()) for k in _set_keys(a) if k not in sb.d])


def hashset_is_subset(a, b):
    sb = D(b)
    return all(k in sb.d for k in _set_keys(a))


def hashset_is_superset(a, b):
    sa = D(a)
    return all(k in sa.d for k in _set_keys(b))


def hashset_is_disjoint(a, b):
    sb = D(b)
    return not any(k in sb.d for k in _set_keys(a))


def hashset_drain(r):
    s = D(r)
    ks = _set_keys(s)
    s.d.clear()
    return ListIt(ks)


def hashset_into_iter(s):
    return ListIt(_set_keys(s))


# =========================================================================== Option / Result
def opt_map(fn, byref):
    def f(o, clo):
        if o[0] == 0:
            return NONE
        return (1, _call(fn, byref, [clo], o[1]))
    return f


def opt_and_then(fn, byref):
    def f(o, clo):
        if o[0] == 0:
            return NONE
        return _call(fn, byref, [clo], o[1])
    return f


def opt_filter(fn, byref):
    def f(o, clo):
        if o[0] == 1 and _call(fn, byref, [clo], mkref(o[1])):
            return o
        return NONE
    return f


def opt_or_else(fn, byref):
    def f(o, clo):
        if o[0] == 1:
            return o
        return _call(fn, byref, [clo])
    return f


def opt_is_some_and(fn, byref):
    def f(o, clo):
        return o[0] == 1 and bool(_call(fn, byref, [clo], o[1]))
    return f


def opt_is_none_or(fn, byref):
    def f(o, clo):
        return o[0] == 0 or bool(_call(fn, byref, [clo], o[1]))
    return f


def opt_unwrap_or_else(fn, byref):
    def f(o, clo):
        if o[0] == 1:
            return o[1]
        return _call(fn, byref, [clo])
    return f


def opt_map_or(fn, byref):
    def f(o, default, clo):
        if o[0] == 0:
            return default
        return _call(fn, byref, [clo], o[1])
    return f


def opt_map_or_else(fn_d, byref_d, fn, byref):
    def f(o, clo_d, clo):
        if o[0] == 0:
            return _call(fn_d, byref_d, [clo_d])
        return _call(fn, byref, [clo], o[1])
    return f


def opt_or(a, b):
    return a if a[0] == 1 else b


def opt_zip(a, b):
    if a[0] == 1 and b[0] == 1:
        return (1, (a[1], b[1]))
    return NONE


def opt_unwrap_or(o, d):
    return o[1] if o[0] == 1 else d


def opt_unwrap_or_default_usize(o):
    return o[1] if o[0] == 1 else 0


def opt_unwrap_or_default_string(o):
    return o[1] if o[0] == 1 else ''


def opt_unwrap_or_default_bool(o):
    return o[1] if o[0] == 1 else False


def opt_ok_or(o, e):
    return Ok(o[1]) if o[0] == 1 else Err(e)


def opt_as_deref(r):
    v = r.get()
    if v[0] == 0:
        return NONE
    return (1, r.sub((1,)))


def opt_copied(o):
    if o[0] == 0:
        return NONE
    return (1, o[1].get() if type(o[1]) is Ref else o[1])


def opt_take(r):
    v = r.get()
    r.set(NONE)
    return v


def opt_replace(r, x):
    v = r.get()
    r.set((1, x))
    return v


def opt_insert(r, x):
    r.set((1, x))
    return r.sub((1,))


def opt_get_or_insert(r, x):
    if r.get()[0] == 0:
        r.set((1, x))
    return r.sub((1,))


def opt_eq(a, b):
    x = D(a)
    y = D(b)
    if x[0] != y[0]:
        return False
    if x[0] == 0:
        return True
    return _same(x[1], y[1])


def opt_ne(a, b):
    return not opt_eq(a, b)


def res_is_ok(r):
    return D(r)[0] == 0


def res_is_err(r):
    return D(r)[0] == 1


def res_as_ref(r):
    v = r.get()
    return (v[0], r.sub((1,)))


def res_ok(r):
    return (1, r[1]) if r[0] == 0 else NONE


def res_err(r):
    return (1, r[1]) if r[0] == 1 else NONE


def res_map(fn, byref):
    def f(r, clo):
        if r[0] == 0:
            return Ok(_call(fn, byref, [clo], r[1]))
        return r
    return f


def res_map_err(fn, byref):
    def f(r, clo):
        if r[0] == 1:
            return Err(_call(fn, byref, [clo], r[1]))
        return r
    return f


def res_and_then(fn, byref):
    def f(r, clo):
        if r[0] == 0:
            return _call(fn, byref, [clo], r[1])
        return r
    return f


def res_unwrap_or(r, d):
    return r[1] if r[0] == 0 else d


def res_unwrap_or_else(fn, byref):
    def f(r, clo):
        if r[0] == 0:
            return r[1]
        return _call(fn, byref, [clo], r[1])
    return f


def res_unwrap_or_default_usize(r):
    return r[1] if r[0] == 0 else 0


# =========================================================================== str / String
def str_len(r):
    return len(cstr(r).encode('utf-8'))


def str_starts_with(r, pat):
    return cstr(r).startswith(cstr(pat))


def str_ends_with2(r, pat):
    return cstr(r).endswith(cstr(pat))


def str_find(r, pat):
    s = cstr(r)
    i = s.find(cstr(pat))
    if i < 0:
        return NONE
    return (1, len(s[:i].encode('utf-8')))


def str_strip_prefix(r, pat):
    s, p = cstr(r), cstr(pat)
    if s.startswith(p):
        return (1, mkref(s[len(p):]))
    return NONE


def str_strip_suffix(r, pat):
    s, p = cstr(r), cstr(pat)
    if s.endswith(p):
        return (1, mkref(s[:len(s) - len(p)]))
    return NONE


def str_rsplit_once(r, pat):
    s, p = cstr(r), cstr(pat)
    i = s.rfind(p)
    if i < 0:
        return NONE
    return (1, (mkref(s[:i]), mkref(s[i + len(p):])))


def str_trim(r):
    return mkref(cstr(r).strip())


def str_trim_start_matches(r, pat):
    s, p = cstr(r), cstr(pat)
    if p:
        while s.startswith(p):
            s = s[len(p):]
    return mkref(s)


def str_trim_end_matches(r, pat):
    s, p = cstr(r), cstr(pat)
    if p:
        while s.endswith(p):
            s = s[:len(s) - len(p)]
    return mkref(s)


def str_replace(r, a, b):
    return cstr(r).replace(cstr(a), cstr(b))


def str_to_owned(r):
    return D(r)


def str_to_lowercase(r):
    return cstr(r).lower()


def str_to_uppercase(r):
    return cstr(r).upper()


def string_add(a, b):
    return cstr(a) + cstr(b)


def string_as_str(r):
    return r


def string_push_char(r, c):
    r.set(cstr(r) + (chr(c) if type(c) is int else str(c)))
    return ()


def string_clear(r):
    r.set('')
    return ()


def str_split_char(r, c):
    sep = chr(c) if type(c) is int else cstr(c)
    return ListIt([mkref(p) for p in cstr(r).split(sep)])


def str_rsplit(r, pat):
    return ListIt([mkref(p) for p in reversed(cstr(r).split(cstr(pat)))])


def str_splitn(r, n, pat):
    return ListIt([mkref(p) for p in cstr(r).split(cstr(pat), n - 1)]) if n > 0 else ListIt([])


def str_lines(r):
    s = cstr(r)
    parts = s.split('\n')
    if parts and parts[-1] == '':
        parts.pop()
    return ListIt([mkref(p[:-1] if p.endswith('\r') else p) for p in parts])


def str_chars(r):
    return ListIt([ord(c) for c in cstr(r)])


def str_bytes(r):
    return ListIt(list(cstr(r).encode('utf-8')))


def str_cmp(a, b):
    x, y = cstr(a).encode('utf-8'), cstr(b).encode('utf-8')
    return LESS if x < y else (GREATER if x > y else EQUAL)


def str_lt(a, b):
    return cstr(a).encode('utf-8') < cstr(b).encode('utf-8')


def str_le(a, b):
    return cstr(a).encode('utf-8') <= cstr(b).encode('utf-8')


def str_gt(a, b):
    return cstr(a).encode('utf-8') > cstr(b).encode('utf-8')


def str_ge(a, b):
    return cstr(a).encode('utf-8') >= cstr(b).encode('utf-8')


# =========================================================================== numbers / misc
USIZE_MAX = (1 << 64) - 1


def usize_saturating_sub(a, b):
    return a - b if a >= b else 0


def usize_saturating_add(a, b):
    return min(a + b, USIZE_MAX)


def usize_checked_add(a, b):
    return (1, a + b) if a + b <= USIZE_MAX else NONE


def usize_checked_sub(a, b):
    return (1, a - b) if a >= b else NONE


def usize_wrapping_add(a, b):
    return (a + b) & USIZE_MAX


def usize_wrapping_sub(a, b):
    return (a - b) & USIZE_MAX


def usize_pow(a, e):
    r = a ** e
    if r > USIZE_MAX:
        raise RustPanic('attempt to multiply with overflow')
    return r


def usize_abs_diff(a, b):
    return abs(a - b)


def ord_max(a, b):
    return b if _ordkey(b) >= _ordkey(a) else a


def ord_min(a, b):
    return a if _ordkey(a) <= _ordkey(b) else b


def usize_cmp(a, b):
    x, y = D(a), D(b)
    return LESS if x < y else (GREATER if x > y else EQUAL)


def usize_partial_cmp(a, b):
    return (1, usize_cmp(a, b))


def mem_replace(r, v):
    old = r.get()
    r.set(v)
    return old


def mem_take_vec(r):
    old = r.get()
    r.set(RVec())
    return old


def mem_take_string(r):
    old = r.get()
    r.set('')
    return old


def mem_take_hashmap(r):
    old = r.get()
    r.set(RHashMap())
    return old


def mem_take_hashset(r):
    old = r.get()
    r.set(RHashSet())
    return old


def mem_take_option(r):
    old = r.get()
    r.set(NONE)
    return old


def mem_swap(a, b):
    x = a.get()
    a.set(b.get())
    b.set(x)
    return ()


def bool_then(fn, byref):
    def f(b, clo):
        return (1, _call(fn, byref, [clo])) if b else NONE
    return f


def bool_then_some(b, v):
    return (1, v) if b else NONE


def add_ref_usize(a, b):
    return D(a) + D(b)


def add_assign_ref(r, b):
    r.set(r.get() + D(b))
    return ()


# =========================================================================== petgraph GraphMap
from .models import OUT as G_OUT, INC as G_INC


def _graph(r):
    return D(r)


def graph_edges_directed(r, a, d):
    """GraphMap::edges_directed: (source, target, &weight), the edge oriented from source to target"""
    g = _graph(r)
    dirv = d[0] if type(d) is tuple else d
    out = []
    for n in g.neighbors_directed(a, dirv):
        e = (n, a) if dirv == G_INC else (a, n)
        out.append((e[0], e[1], Ref(g.ew, e, ())))
    return ListIt(out)


def graph_edges(r, a):
    g = _graph(r)
    return ListIt([(a, n, Ref(g.ew, (a, n), ())) for n in g.neighbors_directed(a, G_OUT)])


def graph_neighbors(r, a):
    return ListIt(list(_graph(r).neighbors_directed(a, G_OUT)))


def graph_contains_edge(r, a, b):
    return (a, b) in _graph(r).ew


def graph_contains_node(r, a):
    return a in _graph(r).adj


def graph_node_count(r):
    return len(_graph(r).order)


def graph_edge_count(r):
    return len(_graph(r).eorder)


def graph_remove_edge(r, a, b):
    g = _graph(r)
    if (a, b) not in g.ew:
        return NONE
    # petgraph: swap_remove in both adjacency lists and in the edge IndexMap
    la = g.adj.get(a)
    if la is not None and (b, G_OUT) in la:
        g._swap_remove(la, la.index((b, G_OUT)))
    if a != b:
        lb = g.adj.get(b)
        if lb is not None and (a, G_INC) in lb:
            g._swap_remove(lb, lb.index((a, G_INC)))
    w = g.ew.pop((a, b))
    g._swap_remove(g.eorder, g.eorder.index((a, b)))
    return (1, w)

"""Property monitors / oracles for the single-evaluation harness (H-EVAL).  One exploration, many properties.

Every monitor reports through ex.report(property_id, what, state, ...).  Oracles over symbolic records are
z3 validity queries `pc => formula`; a failed one carries the model that witnesses it."""
from . import rt, models as M
from . import sym as F
from .rt import Out

BAD = ('FinishedFailure', 'FinishedUpstreamFailure', 'FinishedAborted')


def fin_ok(name):
    return name.startswith('Finished') and name not in BAD


class Ref0:
    """reference semantics shared by several oracles: the up-to-date formula over the symbolic history"""

    def __init__(self, ex):
        self.ex = ex
        self.uni = ex.uni
        self.z = ex.z

    def unaltered(self, a, b, consumer='!!!', producer=None):
        """formula: the configured comparison, asked on behalf of `consumer`, judges a (recorded term) and b (current
        term) unaltered"""
        m = self.uni.mode
        if m == 'ident':
            return F.Eq(a, b)
        if m == 'rel':
            return F.Rel(a, b)
        if m == 'reld':
            return F.RelD(consumer if producer is None else producer + '\x02' + consumer, a, b)
        return F.Or(F.Eq(a, b), F.Rel(a, b))

    def pres(self, spec):
        if spec is None:
            return F.FALSE
        return F.Atom(spec[1])

    def file_present(self, j):
        if self.uni.mode == 'prod':
            return F.And(*[self._present1(part) for part in j.split(':::')])
        return self._present1(j)

    def _present1(self, name):
        sp = self.uni.present_spec.get(name)
        if sp is None:
            return F.FALSE
        return F.Atom(sp)

    def renamed_candidates(self, u, j):
        """records `x!!!j` of historical upstreams x (not a current job) that share an output with u,
        best overlap first -- the engine's rematching of multi-output jobs that changed their id"""
        uni = self.uni
        parts = set(u.split(':::'))
        suffix = '!!!' + j
        cands = []
        for k in uni.hist_spec:
            if k.endswith(suffix) and k != u + suffix:
                x = k[:-len(suffix)]
                if not x or '!!!' in x:
                    continue
                ov = len(parts & set(x.split(':::')))
                if ov > 0:
                    cands.append((ov, k))
        cands.sort(key=lambda t: -t[0])
        return cands

    def edge_ok(self, u, j, cur_u):
        """formula: the record of what j consumed from u exists and matches u's current output; None if the
        renamed-upstream rematching is ambiguous (several historical names with the same overlap)"""
        uni = self.uni
        e = uni.hist_spec.get('%s!!!%s' % (u, j))
        direct = F.FALSE
        pe = F.FALSE
        if e is not None:
            pe = self.pres(e)
            direct = F.And(pe, self.unaltered(rt.term_of(e[0]), cur_u, j, u))
        cands = self.renamed_candidates(u, j)
        if not cands:
            return direct
        if len(cands) > 1 and cands[0][0] == cands[1][0]:
            return None
        # fallback applies only when the direct record is absent; a lower-overlap candidate only when the better is absent
        out = direct
        absent_so_far = F.Not(pe)
        for ov, k in cands:
            sp = uni.hist_spec[k]
            out = F.Or(out, F.And(absent_so_far, self.pres(sp), self.unaltered(rt.term_of(sp[0]), cur_u, j, u)))
            absent_so_far = F.And(absent_so_far, F.Not(self.pres(sp)))
        return out

    def uptodate(self, j, cur):
        """cur: upstream id -> term of its current output.  None = not decidable by this oracle (ambiguous rematch)"""
        uni = self.uni
        own = uni.hist_spec.get(j)
        names = uni.hist_spec.get(j + '!!!')
        if own is None or names is None:
            return F.FALSE
        conj = [self.pres(own), self.pres(names), F.Eq(rt.term_of(names[0]), ('lit', uni.names(j)))]
        for u in uni.ups[j]:
            f = self.edge_ok(u, j, cur[u])
            if f is None:
                return None
            conj.append(f)
        if uni.kind[j] == 'Output':
            conj.append(self.file_present(j))
        return F.And(*conj)


# ======================================================================================================
from .explore import Monitor


class SafetyMonitor(Monitor):
    """C05 progress/termination, C06 no panic / internal error, C10 abort, C17 report consistency,
    C02 inputs materialised, C13 cleanup lifecycle  (no solver-heavy oracle)"""
    props = ('C02', 'C05', 'C06', 'C10', 'C13', 'C17')

    def after_event(self, st, action, ns):
        ex = self.ex
        r = ns.result
        for w in ns.sw or ():
            ex.report('C17', 'inside %s: %s' % (action[0], w), ns)
        if r.startswith('panic'):
            ex.report('C06', 'panic in %s: %s' % (action[0], r[6:120]), ns)
            if action[0] == 'abort' or (action[0] == 'history' and ns.dv.aborted):
                ex.report('C10', '%s after/at abort panicked: %s' % (action[0], r[6:120]), ns)
            return
        if r == 'stepbudget':
            ex.report('C05', 'event %r did not terminate within the step budget' % (action,), ns)
            return
        if r.startswith('err:InternalError'):
            ex.report('C06', 'internal error in %s: %s' % (action[0], r[18:140]), ns)
            try:
                # the call gave up half way: is the evaluation left without anything to do although it is not finished?
                if action[0] != 'history' and not ns.eng.is_finished() and not ns.eng.query_ready_to_run() and not ns.eng.query_jobs_running():
                    ex.report('C05', 'stall: after the internal error in %s the evaluation is not finished but nothing is ready or running' % action[0], ns)
            except rt.RustPanic:
                pass
            if action[0] == 'abort':
                ex.report('C10', 'abort returned an internal error', ns)
            if action[0] == 'history' and ns.dv.aborted:
                ex.report('C10', 'history not obtainable after abort: %s' % r[18:120], ns)
            return
        if r.startswith('err:APIError'):
            ex.report('C17', 'legal call %r rejected with an API error (reports disagree with accepted calls)' % (action,), ns)
            return
        if action[0] == 'abort':
            if not ns.dv.finished:
                ex.report('C10', 'not finished after abort', ns)

    def on_quiescent(self, st):
        ex = self.ex
        uni = self.uni
        dv = st.dv
        eng = st.eng
        ready = eng.query_ready_to_run()
        running = eng.query_jobs_running()
        cleanup = eng.query_ready_for_cleanup()
        failed = eng.query_failed()
        uf = eng.query_upstream_failed()
        fin = dv.finished
        # ---- C05
        if not fin and not ready and not running:
            ex.report('C05', 'stall: not finished, nothing ready or running', st)
        if fin and (ready or running):
            if dv.aborted:
                ex.report('C10', 'after abort: finished but ready=%s running=%s' % (sorted(ready), sorted(running)), st)
            ex.report('C05', 'finished but ready=%s running=%s' % (sorted(ready), sorted(running)), st)
        # ---- C17 report consistency
        if ready & dv.started:
            ex.report('C17', 'started job offered as ready again: %s' % sorted(ready & dv.started), st)
        if running != set(dv.running):
            ex.report('C17', 'running set %s disagrees with driver events %s' % (sorted(running), sorted(dv.running)), st)
        # a job that was running when the evaluation was aborted may be reported failed or aborted
        if not (set(dv.failed) <= failed <= set(dv.failed) | set(dv.at_abort)):
            ex.report('C17', 'failed set %s disagrees with driver events %s' % (sorted(failed), sorted(dv.failed)), st)
        if (dv.offered - dv.acked) - cleanup:
            ex.report('C13', 'cleanup offer withdrawn before acknowledgement: %s' % sorted((dv.offered - dv.acked) - cleanup), st)
        if cleanup & dv.acked:
            ex.report('C13', 'cleanup offered again after acknowledgement: %s' % sorted(cleanup & dv.acked), st)
        if uf & dv.started:
            ex.report('C07', 'started job reported upstream-failed: %s' % sorted(uf & dv.started), st)
        sets = {'ready': ready, 'running': running, 'failed': failed, 'uf': uf}
        names = list(sets)
        for i in range(len(names)):
            for k in range(i + 1, len(names)):
                if sets[names[i]] & sets[names[k]]:
                    ex.report('C17', 'job in both %s and %s: %s' % (names[i], names[k], sorted(sets[names[i]] & sets[names[k]])), st)
        allfin = True
        for j in uni.ids:
            sn = ex.job_state_name(st, j)
            if not sn.startswith('Finished'):
                allfin = False
            if j in ready and not sn.startswith('ReadyToRun'):
                ex.report('C17', 'job %s in ready set but state %s' % (j, sn), st)
            if sn.startswith('ReadyToRun') and j not in ready:
                ex.report('C17', 'job %s in state %s but not in ready set' % (j, sn), st)
        if dv.startup_done and fin != allfin:
            ex.report('C17', 'is_finished=%s but all jobs finished=%s' % (fin, allfin), st)
        # ---- C11 (observation point get_job_output): a job that was executed successfully keeps reporting exactly the
        # output it reported, for the rest of the evaluation (also after its cleanup)
        for j, t in dv.ok:
            r = eng.get_job_output(j)
            if r[0] != 'Done':
                ex.report('C11', 'get_job_output(%s) = %s although the job was executed successfully' % (j, r[0]), st)
            else:
                got = rt.term_of(r[1]) if type(r[1]) in (Out, str) else None
                if got != t:
                    ok, model = ex.z.valid_f(st.pc, st.fpc(), F.Eq(got, t)) if got is not None else (False, None)
                    if not ok:
                        ex.report('C11', 'get_job_output(%s) is not the output the job reported' % j, st, model=model)
        # ---- first-time offers (C02, C17 offered once)
        new_ready = ready - dv.seen_ready
        for j in sorted(new_ready):
            self.check_inputs(st, j)
        if new_ready:
            dv.seen_ready = dv.seen_ready | new_ready
        # ---- C13 cleanup offers
        new_cleanup = cleanup - dv.offered
        for e in sorted(new_cleanup):
            okd = dv.ok_dict()
            if e in dv.acked:
                ex.report('C13', 'ephemeral %s offered for cleanup again after acknowledgement' % e, st)
            if e not in okd:
                ex.report('C13', 'cleanup offered for %s which was not executed successfully' % e, st)
            for d in uni.downs[e]:
                sn = ex.job_state_name(st, d)
                if not sn.startswith('Finished'):
                    ex.report('C13', 'cleanup of %s offered while downstream %s is %s' % (e, d, sn), st)
                elif sn in BAD:
                    ex.report('C13', 'cleanup of %s offered although downstream %s is %s' % (e, d, sn), st)
        if new_cleanup:
            dv.offered = dv.offered | new_cleanup

    def check_inputs(self, st, j):
        ex = self.ex
        uni = self.uni
        dv = st.dv
        okd = dv.ok_dict()
        for u in uni.ups[j]:
            sn = ex.job_state_name(st, u)
            if not fin_ok(sn):
                ex.report('C02', 'job %s offered while upstream %s is %s' % (j, u, sn), st)
                if sn in ('FinishedFailure', 'FinishedUpstreamFailure'):
                    # a job behind a job that the engine itself reports failed / upstream-failed is one of the jobs
                    # "thereby prevented from running": it must not be offered afterwards
                    ex.report('C07', 'job %s newly offered although its direct upstream %s is reported %s' % (j, u, sn), st)
                continue
            k = uni.kind[u]
            if k == 'Output':
                if u not in okd:
                    f = Ref0(ex).file_present(u)
                    ok, model = ex.z.valid_f(st.pc, st.fpc(), f)
                    if not ok:
                        ex.report('C02', 'job %s offered, Output upstream %s skipped but its result is missing' % (j, u), st, model=model)
            elif k == 'Ephemeral':
                if u not in okd:
                    ex.report('C02', 'job %s offered, Ephemeral upstream %s (%s) was not executed in this evaluation' % (j, u, sn), st)
                elif u in dv.offered:
                    ex.report('C02', 'job %s offered after Ephemeral upstream %s was offered for cleanup' % (j, u), st)
            else:
                if u not in okd:
                    ex.report('C02', 'job %s offered, Always upstream %s was not executed' % (j, u), st)
            r = st.eng.get_job_output(u)
            if r[0] != 'Done':
                ex.report('C02', 'job %s offered but get_job_output(%s) = %s' % (j, u, r[0]), st)

    def on_final(self, st):
        ex = self.ex
        uni = self.uni
        dv = st.dv
        # ---- C13 completeness
        if not dv.aborted:
            okd = dv.ok_dict()
            for e in uni.ids:
                if uni.kind[e] == 'Ephemeral' and e in okd and e not in dv.offered:
                    if all(ex.job_state_name(st, d) in ('FinishedSuccess', 'FinishedSkipped', 'FinishedSuccessNotReadyForCleanup',
                                                        'FinishedSuccessReadyForCleanup', 'FinishedSuccessCleanedUp',
                                                        'FinishedSuccessSkipCleanup') for d in uni.downs[e]):
                        ex.report('C13', 'executed ephemeral %s never offered for cleanup (state %s)' % (e, ex.job_state_name(st, e)), st)


# ======================================================================================================
def h_entry(h, key):
    """(presence, value) of key in a returned history; presence: False | True | atom"""
    if key not in h.d:
        return (False, None)
    p = h.pres.get(key) if h.pres else None
    return (True if p is None else p, h.d[key])


def spec_entry(uni, key):
    sp = uni.hist_spec.get(key)
    if sp is None:
        return (False, None)
    return (sp[1], sp[0])


def same_value(a, b):
    if a is None or b is None:
        return a is b
    return rt.term_of(a) == rt.term_of(b)


class OracleMonitor(Monitor):
    """C03 never skipped while stale, C04 only necessary work, C07 failure isolation, C08 failed work not
    recorded, C09(a) never-started jobs keep records, C11 faithful recording, C16 changed ephemeral,
    C18 (returned keys) -- all as validity queries `path condition => formula` over the symbolic history."""
    props = ('C03', 'C04', 'C07', 'C08', 'C09', 'C11', 'C16', 'C18')

    def bind(self, ex):
        Monitor.bind(self, ex)
        self.ref = Ref0(ex)
        self.obligations = 0
        self.discharged = 0

    # ---- helpers
    def cur_terms(self, st):
        """term of each job's current output: what it reported if executed, else its recorded output"""
        okd = st.dv.ok_dict()
        cur = {}
        for j in self.uni.ids:
            if j in okd:
                cur[j] = okd[j]
            else:
                sp = self.uni.hist_spec.get(j)
                cur[j] = rt.term_of(sp[0]) if sp is not None else ('nohist', j)
        return cur

    def oblige(self, st, prop, formula, what, extra=None):
        self.obligations += 1
        ok, model = self.ex.z.valid_f(st.pc, st.fpc(), formula)
        if ok:
            self.discharged += 1
            return True
        self.ex.report(prop, what, st, model=model, detail=extra)
        return False

    # ---- C16 + C07 blocked-set tracking
    def before_event(self, st, action, ns):
        if action[0] == 'run' and self.uni.kind[action[1]] == 'Ephemeral':
            full = self.ex.job_state_full(st, action[1])     # Ephemeral(ReadyToRun(Validated))
            vs = full.split('(')[-1].rstrip(')')
            ns.dv.val_at_run = tuple(sorted(ns.dv.val_at_run + ((action[1], vs),)))

    def after_event(self, st, action, ns):
        ex = self.ex
        uni = self.uni
        k = action[0]
        r = ns.result
        if k == 'ok' and uni.kind[action[1]] == 'Ephemeral' and not r.startswith(('panic', 'err:Internal', 'err:API', 'stepbudget')):
            e = action[1]
            vs = dict(st.dv.val_at_run).get(e)
            own = uni.hist_spec.get(e)
            o = dict(ns.dv.ok).get(e, ex.output_term(st, e))
            if r == 'err:EphemeralChangedOutput':
                if vs != 'Validated':
                    ex.report('C16', 'changed-output error raised for ephemeral %s that was %s, not validated' % (e, vs), ns)
                else:
                    cur = self.cur_terms(st)
                    self.oblige(ns, 'C16', self.ref.uptodate(e, cur) or F.TRUE,
                                'changed-output error raised for ephemeral %s whose inputs had changed / which is not up to date' % e)
                    if own is not None:
                        self.oblige(ns, 'C16', F.Not(self.ref.unaltered(rt.term_of(own[0]), o, '!!!', e)),
                                    'changed-output error raised for ephemeral %s although its output is judged unaltered' % e)
                if e not in ns.eng.query_failed():
                    ex.report('C16', 'ephemeral %s with changed output is not reported failed' % e, ns)
            elif r == 'ok' and vs == 'Validated' and own is not None:
                f = F.Not(F.And(self.ref.pres(own), F.Not(self.ref.unaltered(rt.term_of(own[0]), o, '!!!', e))))
                self.oblige(ns, 'C16', f, 'validated ephemeral %s reported an output judged different from its record, no error raised' % e)
        # C07: blocked set
        if (k == 'fail' or r == 'err:EphemeralChangedOutput') and not r.startswith(('panic', 'err:Internal', 'stepbudget')):
            f = action[1]
            blocked = set(ns.dv.blocked)
            stack = [f]
            while stack:
                x = stack.pop()
                for d in uni.downs[x]:
                    if d in ns.dv.started or d in blocked:
                        continue
                    # the state *before* the failure was delivered decides whether d was still undecided
                    sn = ex.job_state_name(st, d)
                    blocked.add(d)
                    if not sn.startswith('Finished'):
                        stack.append(d)
            ns.dv.blocked = frozenset(blocked)

    def on_quiescent(self, st):
        dv = st.dv
        if dv.blocked:
            ready = st.eng.query_ready_to_run()
            if ready & dv.blocked:
                self.ex.report('C07', 'job %s offered although it depends on a failed job' % sorted(ready & dv.blocked), st)

    # ---- end-of-evaluation oracles
    def on_final(self, st):
        ex = self.ex
        uni = self.uni
        dv = st.dv
        if st.result is None or not st.result.startswith('ok'):
            return
        h1 = st.hist
        okd = dv.ok_dict()
        cur = self.cur_terms(st)
        state = {j: ex.job_state_name(st, j) for j in uni.ids}
        uf = st.eng.query_upstream_failed()
        faulty = bool(dv.failed) or dv.aborted or bool(uf)
        # ---------------- C03
        for j in uni.ids:
            if uni.exempt[j] or j in dv.started:
                continue
            if state[j] == 'FinishedSkipped':
                f = self.ref.uptodate(j, cur)
                if f is not None:
                    self.oblige(st, 'C03', f, 'job %s was skipped although it is not up to date' % j)
        # ---------------- C04 (local formulation: each job judged against what its upstreams actually did)
        need = {}
        ambiguous = set()
        for j in uni.ids:
            if uni.exempt[j]:
                continue
            if uni.kind[j] == 'Always':
                need[j] = F.TRUE
            else:
                f = self.ref.uptodate(j, cur)
                if f is None:
                    ambiguous.add(j)
                    need[j] = F.TRUE
                else:
                    need[j] = F.Not(f)
        needed_tr = {}
        for j in reversed(uni.topo_order()):
            if uni.exempt[j]:
                needed_tr[j] = F.FALSE
                continue
            f = F.TRUE if j in dv.started else need[j]
            if uni.kind[j] == 'Ephemeral':
                f = F.Or(f, *[needed_tr[d] for d in uni.downs[j]])
            needed_tr[j] = f
        for j in uni.ids:
            started = j in dv.started
            if uni.exempt[j]:
                if started:
                    ex.report('C04', 'ephemeral %s that nobody can need was executed' % j, st)
                continue
            if j in ambiguous:
                continue
            if not faulty:
                exp = need[j]
                if uni.kind[j] == 'Ephemeral' and any(d in dv.started for d in uni.downs[j]):
                    exp = F.TRUE
                self.oblige(st, 'C04', exp if started else F.Not(exp),
                            ('job %s was executed although it is up to date and no executed job consumes it' if started else
                             'job %s was not executed although it is not up to date / is consumed by an executed job') % j)
            elif started:
                exp = need[j]
                if uni.kind[j] == 'Ephemeral':
                    exp = F.Or(exp, *[needed_tr[d] for d in uni.downs[j]])
                self.oblige(st, 'C04', exp, 'job %s was executed (evaluation with failures/abort) although nothing required it' % j)
        # ---------------- C07 end state
        failed_now = st.eng.query_failed()
        for j in sorted(uf):
            if j in dv.started:
                ex.report('C07', 'started job %s reported upstream-failed' % j, st)
            if not any(u in failed_now or u in uf for u in uni.ups[j]):
                ex.report('C07', 'job %s reported upstream-failed although no direct upstream failed or is upstream-failed' % j, st)
        if not dv.aborted:
            for j in sorted(dv.blocked):
                if j not in uf and not uni.exempt[j]:
                    ex.report('C07', 'job %s depends on a failed job but ended %s instead of upstream-failed' % (j, state[j]), st)
            for e in sorted(dv.c16):
                for d in uni.downs[e]:
                    if d not in dv.started and d not in uf and not uni.exempt[d]:
                        ex.report('C16', 'ephemeral %s was failed for changing its output but its not-yet-started dependant %s ended %s '
                                         'instead of upstream-failed' % (e, d, state[d]), st)
            if dv.failed:
                anc_failed = {}
                for j in uni.topo_order():
                    anc_failed[j] = any((u in dv.failed) or anc_failed[u] for u in uni.ups[j])
                for j in uni.ids:
                    if uni.kind[j] == 'Ephemeral' or anc_failed[j] or j in dv.failed or j in ambiguous:
                        continue
                    started = j in dv.started
                    self.oblige(st, 'C07', need[j] if started else F.Not(need[j]),
                                'job %s has no failed ancestor but was %s unlike in the failure-free evaluation' % (j, 'executed' if started else 'not executed'))
        # ---------------- history-based: C08, C09a, C11, C18
        if h1 is None:
            return
        for j in uni.ids:
            ups = uni.ups[j]
            own_keys = [j, j + '!!!']
            if j in dv.failed or j in dv.at_abort:
                for k in own_keys:
                    p, v = h_entry(h1, k)
                    if p is True:
                        ex.report('C08', 'failed/aborted-while-running job %s has record %r in the returned history' % (j, k), st)
                    elif p is not False:
                        self.oblige(st, 'C08', F.Not(F.Atom(p)), 'failed job %s keeps record %r' % (j, k))
                for u in ups:
                    k = '%s!!!%s' % (u, j)
                    if not self.entries_identical(st, h_entry(h1, k), spec_entry(uni, k)):
                        ex.report('C08', 'record %r of what failed job %s last consumed was changed' % (k, j), st)
            elif j not in dv.started and state[j] in ('FinishedUpstreamFailure', 'FinishedAborted'):
                for k in own_keys + ['%s!!!%s' % (u, j) for u in ups]:
                    if not self.entries_identical(st, h_entry(h1, k), spec_entry(uni, k), modulo=True, consumer=(j if '!!!' in k and not k.endswith('!!!') else '!!!'),
                                                  producer=(k.split('!!!')[0] if '!!!' in k and not k.endswith('!!!') else j)):
                        ex.report('C09', 'never-started job %s (%s): record %r not kept unchanged' % (j, state[j], k), st)
            elif j in okd:
                # presence may still be a symbolic atom when the engine carried an input record over instead of writing it:
                # then the obligation (present and equal) is decided by the solver, whose model is the counterexample
                p, v = h_entry(h1, j)
                if p is False:
                    ex.report('C11', 'executed job %s: no output record, reported %r' % (j, okd[j]), st)
                elif p is not True or rt.term_of(v) != okd[j]:
                    self.oblige(st, 'C11', F.And(F.Atom(p), F.Eq(rt.term_of(v), okd[j])),
                                'executed job %s: output record is not what it reported' % j)
                p, v = h_entry(h1, j + '!!!')
                if p is False:
                    ex.report('C11', 'executed job %s: no input-name record, expected %r' % (j, uni.names(j)), st)
                elif p is not True or v != uni.names(j):
                    self.oblige(st, 'C11', F.And(F.Atom(p), F.Eq(rt.term_of(v), ('lit', uni.names(j)))),
                                'executed job %s: input-name record is not the current input list %r' % (j, uni.names(j)))
                cons = dict(dict(dv.consumed).get(j, ()))
                for u in ups:
                    k = '%s!!!%s' % (u, j)
                    p, v = h_entry(h1, k)
                    if p is False or cons.get(u) is None:
                        ex.report('C11', 'executed job %s: no record %r of the consumed upstream output' % (j, k), st)
                    elif p is not True or rt.term_of(v) != cons[u]:
                        self.oblige(st, 'C11', F.And(F.Atom(p), F.Eq(rt.term_of(v), cons[u])),
                                    'executed job %s: record %r is missing or differs from the upstream output it consumed' % (j, k))
            elif state[j] == 'FinishedSkipped' and not uni.exempt[j]:
                for k in own_keys:
                    if not self.entries_identical(st, h_entry(h1, k), spec_entry(uni, k), need_present=True):
                        ex.report('C11', 'validly skipped job %s: own record %r not retained' % (j, k), st)
                for u in ups:
                    k = '%s!!!%s' % (u, j)
                    p, v = h_entry(h1, k)
                    if p is False:
                        ex.report('C11', 'validly skipped job %s: record %r missing from the returned history' % (j, k), st)
                        continue
                    f = F.And(F.Atom(p), self.ref.unaltered(rt.term_of(v), cur[u], j, u))
                    self.oblige(st, 'C11', f, 'validly skipped job %s: record %r does not match the current output of %s' % (j, k, u))
        # WF is inductive: own record and input-name record present together
        for j in uni.ids:
            p1, _ = h_entry(h1, j)
            p2, _ = h_entry(h1, j + '!!!')
            if p1 != p2:
                self.oblige(st, 'C11', F.Iff(F.Atom(p1), F.Atom(p2)), 'returned history has record %r without %r (or vice versa)' % (j, j + '!!!'))
        self.check_c18(st, h1)

    def entries_identical(self, st, a, b, modulo=False, need_present=False, consumer='!!!', producer=None):
        """entry a (returned) vs b (input history): same presence and same value"""
        pa, va = a
        pb, vb = b
        if pa is False and pb is False:
            return not need_present
        z = self.ex.z
        if pa != pb:
            ok, _ = z.valid_f(st.pc, st.fpc(), F.Iff(F.Atom(pa), F.Atom(pb)))
            if not ok:
                return False
        if need_present:
            ok, _ = z.valid_f(st.pc, st.fpc(), F.Atom(pa))
            if not ok:
                return False
        if va is None or vb is None:
            return pa is False or pb is False
        if same_value(va, vb):
            return True
        ta = rt.term_of(va)
        tb = rt.term_of(vb)
        f = self.ref.unaltered(tb, ta, consumer, producer) if (modulo and self.uni.mode != 'ident') else F.Eq(ta, tb)
        ok, _ = z.valid_f(st.pc, st.fpc(), F.Implies(F.Atom(pa), f))
        return ok

    def check_c18(self, st, h1):
        ex = self.ex
        uni = self.uni
        ids = set(uni.ids)
        edges = set((u, d) for d, u in uni.edges)
        part_owner = {}
        for j in uni.ids:
            for part in j.split(':::'):
                part_owner[part] = j

        def superseded(job):
            if job in ids:
                return False
            return any(part in part_owner and part_owner[part] != job for part in job.split(':::'))
        for k in h1.d:
            a, sep, b = k.partition('!!!')
            if sep and b:
                describes = (a in ids and b in ids and (a, b) in edges)
            else:
                describes = a in ids
            if describes:
                continue
            if k in uni.hist_spec and self.entries_identical(st, h_entry(h1, k), spec_entry(uni, k)):
                continue
            ex.report('C18', 'returned history has record %r that neither was in the input history nor describes the current graph' % k, st)
        for k, (v, p) in uni.hist_spec.items():
            a, sep, b = k.partition('!!!')
            is_edge = bool(sep and b)
            if a not in ids and superseded(a):
                # own records and what-it-fed records of a job whose outputs another (renamed) job now produces
                pe, ve = h_entry(h1, k)
                if pe is not False:
                    self.oblige(st, 'C18', F.Not(F.Atom(pe)), 'record %r of a superseded multi-output job is returned' % k)
            elif a not in ids or (is_edge and b not in ids):
                if is_edge and b not in ids and superseded(b):
                    continue        # what a superseded job consumed: not specified either way
                if not self.entries_identical(st, h_entry(h1, k), (p, v)):
                    ex.report('C18', 'record %r of an absent job was not returned unchanged' % k, st)
            elif is_edge and (a, b) not in edges:
                pe, ve = h_entry(h1, k)
                if pe is not False:
                    self.oblige(st, 'C18', F.Not(F.Atom(pe)), 'record %r between two present jobs that no longer depend on each other is returned' % k)


class MisuseMonitor(Monitor):
    """C20: at every reachable quiescent state every illegal call on every known job is rejected with an API
    error and leaves the complete engine state (all fields, exact) and all query results unchanged."""
    props = ('C20',)

    def bind(self, ex):
        Monitor.bind(self, ex)
        self.calls = 0
        self.seen = set()
        self.distinct = 0

    def snapshot(self, eng):
        from .explore import canon_value
        return (canon_value(eng.cell[0]), frozenset(eng.query_ready_to_run()), frozenset(eng.query_jobs_running()),
                frozenset(eng.query_ready_for_cleanup()), frozenset(eng.query_failed()), frozenset(eng.query_upstream_failed()))

    def on_quiescent(self, st):
        from . import engine_api as E, sym
        from .explore import canon_value
        ex = self.ex
        uni = self.uni
        if not st.dv.startup_done:
            return
        eng0 = st.eng
        # the engine's reaction to a call depends on the engine state only: one check per distinct engine state
        ekey = ex.canon(st)[:6] + (st.dv.running,)
        if ekey in self.seen:
            return
        self.seen.add(ekey)
        self.distinct += 1
        # every reachable state of the complete enumerations (<= 3 jobs) gets every illegal call; in the larger H-BUILT
        # universes (whose purpose is depth of the scheduling logic, not the call guards) every 8th distinct engine state does
        if getattr(uni, 'built', False) and len(uni.ids) >= 4 and self.distinct % 8 != 1:
            return
        self.checked = getattr(self, 'checked', 0) + 1
        ready = eng0.query_ready_to_run()
        # which finish reports are illegal is decided by the events the driver delivered, not by what the engine reports
        # as running (a stale report must not make the monitor skip the very call that is illegal)
        running = set(st.dv.running)
        cleanup = eng0.query_ready_for_cleanup()
        calls = [('startup', None)]
        for j in uni.ids:
            if j not in ready:
                calls.append(('run', j))
            if j not in running:
                calls.append(('ok', j))
                calls.append(('fail', j))
            if j not in cleanup:
                calls.append(('cleanup', j))
        base = self.snapshot(eng0)
        fin0 = st.dv.finished
        eng = ex.clone_engine(eng0)
        for kind, j in calls:
            self.calls += 1
            rt.CTX.oracle = sym.Oracle(ex.z, st.pc, ())
            res = None
            try:
                if kind == 'startup':
                    eng.event_startup()
                elif kind == 'run':
                    eng.event_now_running(j)
                elif kind == 'ok':
                    eng.event_job_finished_success(j, Out(('misuse', j)))
                elif kind == 'fail':
                    eng.event_job_finished_failure(j)
                else:
                    eng.event_job_cleanup_done(j)
                res = 'accepted'
            except E.EngineError as e:
                res = e.kind
            except rt.RustPanic as p:
                res = 'panic: ' + p.msg[:80]
            finally:
                rt.CTX.oracle = None
            bad = False
            if res != 'APIError':
                ex.report('C20', 'illegal call %s(%s) was not rejected with an API error: %s' % (kind, j, res), st, detail=('misuse', kind, j))
                bad = True
            try:
                # the query results are functions of the engine value: comparing the complete value is enough
                after = canon_value(eng.cell[0])
                fin1 = bool(eng.is_finished())
            except rt.RustPanic:
                after = None
                fin1 = None
            if after != base[0] or fin1 != fin0:
                if not bad:
                    ex.report('C20', 'rejected illegal call %s(%s) changed the state of the evaluation' % (kind, j), st, detail=('misuse', kind, j))
                bad = True
            if bad:
                eng = ex.clone_engine(eng0)

"""z3 layer: atoms -> formulas, path conditions, feasibility of decisions, validity of obligations, models.

Atoms (hashable tuples):
  ('eq', t1, t2)        two output/record terms are the same string
  ('R', t1, t2)         the configured comparison judges t1 and t2 unaltered (R = kernel of an uninterpreted
                        function cls: Out -> Cls, i.e. an arbitrary equivalence relation)
  ('p', key)            history record `key` is present
  ('present', job)      the Output job's result exists at startup
  ('b', name)           free boolean
Terms: ('lit', s) concrete string; any other tuple is an uninterpreted constant of sort Out, except
  ('app', fname, args...)   application of an uninterpreted function fname: Out^n -> Out
"""
import time
import z3

from . import rt


# ---------------------------------------------------------------------------- lightweight formulas
TRUE = ('true',)
FALSE = ('false',)


def norm_atom(a):
    if a[0] in ('eq', 'R', 'ceq'):
        x, y = a[1], a[2]
        if repr(y) < repr(x):
            return (a[0], y, x)
    elif a[0] == 'Rd':
        x, y = a[2], a[3]
        if repr(y) < repr(x):
            return (a[0], a[1], y, x)
    return a


def Atom(a):
    if a is True:
        return TRUE
    if a is False:
        return FALSE
    a = norm_atom(a)
    if a[0] in ('eq', 'R', 'ceq') and a[1] == a[2]:
        return TRUE
    if a[0] == 'Rd' and a[2] == a[3]:
        return TRUE
    return ('atom', a)


def CEq(x, y):
    """equality of two content-level (sort Cls) terms: ('cls', out_term) | ('capp', fname, cls_term...)"""
    return Atom(('ceq', x, y))


def Eq(x, y):
    return Atom(('eq', x, y))


def Rel(x, y):
    return Atom(('R', x, y))


def RelD(consumer, x, y):
    """the comparison, asked on behalf of `consumer`, judges x and y unaltered.  consumer '!!!' = the whole output (what the
    engine asks for a job's own record); R_'!!!'(x,y) implies R_c(x,y) for every consumer c (a consumer looks at a part)"""
    return Atom(('Rd', consumer, x, y))


def Not(f):
    if f is TRUE:
        return FALSE
    if f is FALSE:
        return TRUE
    if f[0] == 'not':
        return f[1]
    return ('not', f)


def And(*fs):
    out = []
    for f in fs:
        if f is FALSE:
            return FALSE
        if f is TRUE:
            continue
        out.append(f)
    if not out:
        return TRUE
    if len(out) == 1:
        return out[0]
    return ('and',) + tuple(out)


def Or(*fs):
    out = []
    for f in fs:
        if f is TRUE:
            return TRUE
        if f is FALSE:
            continue
        out.append(f)
    if not out:
        return FALSE
    if len(out) == 1:
        return out[0]
    return ('or',) + tuple(out)


def Implies(a, b):
    return Or(Not(a), b)


def Iff(a, b):
    if a == b:
        return TRUE
    return ('iff', a, b)


def ev3(f, pc):
    """three-valued evaluation of formula f under the partial assignment pc (dict atom -> bool):
    True / False if the literals of pc already decide f, None otherwise"""
    k = f[0]
    if k == 'atom':
        return pc.get(f[1])
    if k == 'true':
        return True
    if k == 'false':
        return False
    if k == 'not':
        v = ev3(f[1], pc)
        return None if v is None else (not v)
    if k == 'and':
        unknown = False
        for g in f[1:]:
            v = ev3(g, pc)
            if v is False:
                return False
            if v is None:
                unknown = True
        return None if unknown else True
    if k == 'or':
        unknown = False
        for g in f[1:]:
            v = ev3(g, pc)
            if v is True:
                return True
            if v is None:
                unknown = True
        return None if unknown else False
    if k == 'iff':
        a = ev3(f[1], pc)
        b = ev3(f[2], pc)
        if a is None or b is None:
            return None
        return a == b
    raise ValueError(f)


def concrete_class(classes, key, v):
    """table lookup mirrored by the native replay's TableStrategy: (producer, consumer, value) -> (producer, '!!!', value) ->
    value's own class -> the value itself"""
    c = classes.get(key + '\x01' + v)
    if c is not None:
        return c
    if '\x02' in key:
        c = classes.get(key.split('\x02', 1)[0] + '\x02!!!\x01' + v)
        if c is not None:
            return c
    return classes.get(v, v)


class SolverStats:
    def __init__(self):
        self.queries = 0
        self.sat = 0
        self.unsat = 0
        self.time = 0.0
        self.by_class = {}
        self.cache_hits = 0

    def add(self, cls, res, dt):
        self.queries += 1
        self.time += dt
        if res == 'sat':
            self.sat += 1
        else:
            self.unsat += 1
        c = self.by_class.setdefault(cls, [0, 0.0])
        c[0] += 1
        c[1] += dt

    def to_json(self):
        return {'queries': self.queries, 'sat': self.sat, 'unsat': self.unsat, 'solver_s': round(self.time, 3),
                'cache_hits': self.cache_hits,
                'by_class': {k: {'n': v[0], 's': round(v[1], 3)} for k, v in self.by_class.items()}}


class Z3Ctx:
    """one per query universe (graph instance); holds declarations, background axioms and caches"""

    def __init__(self, stats=None):
        self.s = z3.Solver()
        self.Out = z3.DeclareSort('Out')
        self.Cls = z3.DeclareSort('Cls')
        self.cls = z3.Function('cls', self.Out, self.Cls)
        self.terms = {}
        self.lits = []
        self.atoms = {}       # atom -> indicator Bool
        self.funcs = {}
        self.stats = stats or SolverStats()
        self.feas_cache = {}
        self.valid_cache = {}
        self.background = []   # formulas (kept for SMT-LIB dumps)
        self.n = 0
        self.lits_cache = {}
        self.f_cache = {}
        self.classes = None    # concrete replays: string -> class name (comparison relation given by a table)
        self.clsconsts = {}
        self.by_eval = 0       # obligations decided by evaluating the formula under the path-condition literals
        # second-solver cross-check: every xcheck-th obligation query is dumped as SMT-LIB2 and re-decided by cvc5;
        # a disagreement or an error line makes the run inconclusive
        import os as _os
        self.xcheck = int(_os.environ.get('MIRSYM_XCHECK', '0') or 0)
        self.n_oblig_queries = 0
        self.xchecked = 0

    # ---- terms and atoms
    def term(self, t):
        r = self.terms.get(t)
        if r is not None:
            return r
        if t[0] == 'lit':
            r = z3.Const('lit%d' % len(self.lits), self.Out)
            for other in self.lits:
                ax = r != other
                self.s.add(ax)
                self.background.append(ax)
            self.lits.append(r)
            if self.classes is not None:
                cname = self.classes.get(t[1], t[1])
                cc = self.clsconsts.get(cname)
                if cc is None:
                    cc = z3.Const('clsconst%d' % len(self.clsconsts), self.Cls)
                    for other in self.clsconsts.values():
                        self.s.add(cc != other)
                    self.clsconsts[cname] = cc
                self.s.add(self.cls(r) == cc)
        elif t[0] == 'app':
            fname = t[1]
            args = [self.term(a) for a in t[2:]]
            key = (fname, len(args))
            f = self.funcs.get(key)
            if f is None:
                f = z3.Function('%s_%d' % (fname, len(args)), *([self.Out] * len(args) + [self.Out]))
                self.funcs[key] = f
            r = f(*args) if args else z3.Const('%s_0c' % fname, self.Out)
        else:
            self.n += 1
            r = z3.Const('t%d_%s' % (self.n, '_'.join(str(x) for x in t if isinstance(x, (str, int)))[:40]), self.Out)
        self.terms[t] = r
        return r

    def cterm(self, t):
        """content-level term (sort Cls): ('cls', out_term) = class of an output value under the configured
        comparison; ('capp', fname, cls_terms...) = uninterpreted job behaviour on contents"""
        r = self.terms.get(t)
        if r is not None:
            return r
        if t[0] == 'cls':
            r = self.cls(self.term(t[1]))
        elif t[0] == 'capp':
            args = [self.cterm(a) for a in t[2:]]
            key = ('C', t[1], len(args))
            f = self.funcs.get(key)
            if f is None:
                if args:
                    f = z3.Function('C%s_%d' % (t[1], len(args)), *([self.Cls] * (len(args) + 1)))
                else:
                    f = z3.Const('C%s_0c' % t[1], self.Cls)
                self.funcs[key] = f
            r = f(*args) if args else f
        else:
            raise rt.Unsupported('content term %r' % (t,))
        self.terms[t] = r
        return r

    def base_fn(self, u):
        """class of a whole output of producer u under the configured comparison (independent per producer)"""
        key = ('B', u)
        f = self.funcs.get(key)
        if f is None:
            f = z3.Function('B%d_%s' % (len(self.funcs), ''.join(c for c in u if c.isalnum())[:20]), self.Out, self.Cls)
            self.funcs[key] = f
        return f

    def part_fn(self, d):
        """what consumer d looks at: an uninterpreted function of the whole-output class"""
        key = ('G', d)
        f = self.funcs.get(key)
        if f is None:
            f = z3.Function('G%d_%s' % (len(self.funcs), ''.join(c for c in d if c.isalnum())[:20]), self.Cls, self.Cls)
            self.funcs[key] = f
        return f

    def formula(self, atom):
        if atom is True:
            return z3.BoolVal(True)
        if atom is False:
            return z3.BoolVal(False)
        k = atom[0]
        if k == 'eq':
            return self.term(atom[1]) == self.term(atom[2])
        if k == 'R':
            return self.cls(self.term(atom[1])) == self.cls(self.term(atom[2]))
        if k == 'ceq':
            return self.cterm(atom[1]) == self.cterm(atom[2])
        if k == 'Rd':
            key, a, b = atom[1], atom[2], atom[3]
            # key = "<producer>\x02<consumer>" (or just "<consumer>"): the comparison may depend on whose output is compared and
            # on behalf of which consumer; consumer '!!!' = the whole output
            u, d = key.split('\x02', 1) if '\x02' in key else (None, key)
            if self.classes is not None and a[0] == 'lit' and b[0] == 'lit':
                return z3.BoolVal(concrete_class(self.classes, key, a[1]) == concrete_class(self.classes, key, b[1]))
            base = self.cls if u is None else self.base_fn(u)
            if d == '!!!':
                return base(self.term(a)) == base(self.term(b))
            g = self.part_fn(key)
            return g(base(self.term(a))) == g(base(self.term(b)))
        if k in ('p', 'pe', 'ps', 'present', 'present2', 'b', 'present3', 'kept'):
            return z3.Bool('%s_%s' % (k, '_'.join(str(x) for x in atom[1:])))
        raise rt.Unsupported('atom %r' % (atom,))

    def indicator(self, atom):
        b = self.atoms.get(atom)
        if b is None:
            b = z3.Bool('a%d' % len(self.atoms))
            ax = b == self.formula(atom)
            self.s.add(ax)
            self.background.append(ax)
            self.atoms[atom] = b
        return b

    def add_axiom(self, f):
        self.s.add(f)
        self.background.append(f)
        self.feas_cache.clear()
        self.valid_cache.clear()

    def lit(self, atom, val):
        key = (atom, val)
        r = self.lits_cache.get(key)
        if r is None:
            b = self.indicator(atom)
            r = b if val else z3.Not(b)
            self.lits_cache[key] = r
        return r

    def to_z3(self, f):
        r = self.f_cache.get(f)
        if r is not None:
            return r
        k = f[0]
        if k == 'atom':
            r = self.indicator(f[1])
        elif k == 'true':
            r = z3.BoolVal(True)
        elif k == 'false':
            r = z3.BoolVal(False)
        elif k == 'not':
            r = z3.Not(self.to_z3(f[1]))
        elif k == 'and':
            r = z3.And(*[self.to_z3(g) for g in f[1:]])
        elif k == 'or':
            r = z3.Or(*[self.to_z3(g) for g in f[1:]])
        elif k == 'iff':
            r = self.to_z3(f[1]) == self.to_z3(f[2])
        else:
            raise rt.Unsupported('formula %r' % (f,))
        self.f_cache[f] = r
        return r

    def valid_f(self, pcdict, fpc, f, cls='obligation'):
        """does the path condition imply formula f (lightweight formula)?  (ok, model)"""
        v = ev3(f, pcdict)
        if v is True:
            self.by_eval += 1
            return True, None
        key = (fpc, f)
        r = self.valid_cache.get(key)
        if r is not None:
            self.stats.cache_hits += 1
            return r
        m = self.check_formula(fpc, z3.Not(self.to_z3(f)), cls)
        r = ((m is None), m)
        self.valid_cache[key] = r
        return r

    # ---- queries
    def feasible(self, pc, atom, val, cls='branch'):
        """is pc /\\ (atom == val) satisfiable?  pc: frozenset of (atom, bool)"""
        key = (pc, atom, val)
        r = self.feas_cache.get(key)
        if r is not None:
            self.stats.cache_hits += 1
            return r
        assumptions = [self.lit(a, v) for a, v in pc]
        assumptions.append(self.lit(atom, val))
        t0 = time.time()
        res = self.s.check(*assumptions)
        dt = time.time() - t0
        if res == z3.unknown:
            raise rt.Unsupported('z3 returned unknown')
        r = (res == z3.sat)
        self.stats.add(cls, 'sat' if r else 'unsat', dt)
        if self.xcheck:
            self.n_oblig_queries += 1
            if self.n_oblig_queries % self.xcheck == 0:
                self.cross_check(list(pc) + [(atom, val)], None, r)
        self.feas_cache[key] = r
        return r

    def check_formula(self, pc, f, cls='obligation'):
        """is pc /\\ f satisfiable? returns model or None.  f is a z3 formula"""
        assumptions = [self.lit(a, v) for a, v in pc]
        self.s.push()
        try:
            self.s.add(f)
            t0 = time.time()
            res = self.s.check(*assumptions)
            dt = time.time() - t0
            if res == z3.unknown:
                raise rt.Unsupported('z3 returned unknown')
            self.stats.add(cls, 'sat' if res == z3.sat else 'unsat', dt)
            if self.xcheck:
                self.n_oblig_queries += 1
                if self.n_oblig_queries % self.xcheck == 0:
                    self.cross_check(pc, f, res == z3.sat)
            if res == z3.sat:
                return self.s.model()
            return None
        finally:
            self.s.pop()

    def cross_check(self, pc, f, z3_sat):
        import subprocess
        txt = '(set-logic ALL)\n' + self.smtlib(pc, f)
        p = subprocess.run(['cvc5', '--lang', 'smt2'], input=txt, stdout=subprocess.PIPE, stderr=subprocess.PIPE, text=True, timeout=120)
        out = p.stdout.strip().split('\n')[-1] if p.stdout.strip() else ''
        if '(error' in p.stdout or out not in ('sat', 'unsat'):
            raise rt.Unsupported('cvc5 cross-check inconclusive: %s %s' % (p.stdout[-200:], p.stderr[-200:]))
        if (out == 'sat') != z3_sat:
            raise rt.Unsupported('SOLVER DISAGREEMENT: z3 says %s, cvc5 says %s' % ('sat' if z3_sat else 'unsat', out))
        self.xchecked += 1
        self.stats.add('cvc5-crosscheck', out, 0.0)

    def valid(self, pc, f, cls='obligation'):
        """does pc imply f?  returns (True, None) or (False, model)"""
        m = self.check_formula(pc, z3.Not(f), cls)
        return (m is None), m

    def model_for(self, pc):
        assumptions = [self.lit(a, v) for a, v in pc]
        res = self.s.check(*assumptions)
        if res != z3.sat:
            return None
        return self.s.model()

    def smtlib(self, pc, f=None):
        """SMT-LIB2 dump of background + pc (+ f) for cross-checking with another solver"""
        s2 = z3.Solver()
        for b in self.background:
            s2.add(b)
        for a, v in pc:
            s2.add(self.lit(a, v))
        if f is not None:
            s2.add(f)
        return s2.to_smt2()


class Oracle:
    """decision oracle for one event execution: follows a decision prefix, forks beyond it"""

    def __init__(self, zctx, pc, prefix):
        self.z = zctx
        self.pc = dict(pc)            # atom -> bool
        self.prefix = prefix
        self.k = 0                    # number of forking decisions taken so far
        self.alternatives = []        # prefixes to explore (beyond the given one)
        self.taken = []

    def decide(self, atom):
        atom = norm_atom(atom)
        v = self.pc.get(atom)
        if v is not None:
            return v
        fpc = frozenset(self.pc.items())
        can_t = self.z.feasible(fpc, atom, True)
        can_f = self.z.feasible(fpc, atom, False)
        if can_t and can_f:
            if self.k < len(self.prefix):
                v = self.prefix[self.k]
            else:
                v = True
                self.alternatives.append(tuple(self.taken) + (False,))
            self.taken.append(v)
            self.k += 1
            self.pc[atom] = v
            return v
        if can_t:
            return True
        if can_f:
            return False
        raise rt.Unsupported('path condition became infeasible')

"""callee string (as printed in MIR) -> Python expression of the model callable (or None = unsupported)."""
import re

CLOSURE_RE = re.compile(r'\{closure@[^}]*\}')


def norm(callee):
    s = callee.replace("'_, ", '').replace("'_ ", '').replace("'_", '')
    s = re.sub(r"'[a-z]\w*,? ?", '', s)
    return s


def _closure(gen, s, which=-1):
    cl = CLOSURE_RE.findall(s)
    if not cl:
        return None
    r = gen.closure_fn(cl[which])
    return r


ENGINE_EQ_TYPES = ('JobStateAlways', 'JobStateEphemeral', 'JobStateOutput', 'ValidationStatus', 'JobState', 'Required',
                   'SignalKind', 'JobKind')

SIMPLE = [
    # ---- Option / Result
    (r'Option::<.*>::unwrap$', 'M.opt_unwrap'),
    (r'Option::<.*>::expect$', 'M.opt_expect'),
    (r'Option::<.*>::is_some$', 'M.opt_is_some'),
    (r'Option::<.*>::is_none$', 'M.opt_is_none'),
    (r'Option::<.*>::as_ref$', 'M.opt_as_ref'),
    (r'Option::<&.*>::cloned$', 'M.opt_cloned'),
    (r'Option::<&String>::map::<Cow<str>, fn\(&String\) -> Cow<str> \{<Cow<str> as From<&String>>::from\}>$', 'M.opt_map_fnitem'),
    (r'Result::<.*>::unwrap$', 'M.res_unwrap'),
    (r'Result::<.*>::expect$', 'M.res_expect'),
    (r'<Result<.*> as Try>::branch$', 'M.try_branch'),
    (r'<Result<.*> as FromResidual<Result<Infallible, .*>>>::from_residual$', 'M.from_residual'),
    # ---- clone / deref / conversions
    (r'<(String|Option<String>|HashMap<.*>|HashSet<.*>|Vec<.*>) as Clone>::clone$', 'M.clone_deref'),
    (r'<String as Deref>::deref$', 'M.ref_identity'),
    (r'<Vec<.*> as Deref(Mut)?>::deref(_mut)?$', 'M.ref_identity'),
    (r'<(PathBuf|Rc<.*>|Ref<.*>) as Deref>::deref$', 'M.ref_identity'),
    (r'RefCell::<.*>::borrow$', 'M.ref_identity'),
    (r'<Cow<str> as Deref>::deref$', 'M.cow_deref'),
    (r'<Cow<str> as From<&String>>::from$', 'M.cow_from_ref'),
    (r'<(str|String) as ToString>::to_string$', 'M.str_to_string'),
    (r'must_use::<.*>$', 'M.identity'),
    (r'<.* as Into<.*>>::into$', 'M.identity'),
    # ---- string equality (decision points when a value is symbolic)
    (r'<&?&?(String|str) as PartialEq(<&?(str|String)>)?>::eq$', 'M.s_eq'),
    (r'<&?&?(String|str) as PartialEq(<&?(str|String)>)?>::ne$', 'M.s_ne'),
    (r'<usize as PartialEq>::eq$', 'M.usize_eq'),
    # ---- iterators
    (r'<.* as IntoIterator>::into_iter$', None),   # handled below (Vec by value vs iterator identity)
    (r'<.* as Iterator>::next$', 'M.it_next'),
    (r'<.* as Iterator>::enumerate$', 'M.it_enumerate'),
    (r'<.* as Iterator>::rev$', 'M.it_rev'),
    (r'<.* as Iterator>::collect::<Vec<.*>>$', 'M.collect_vec'),
    (r'<.* as Iterator>::collect::<HashSet<.*>>$', 'M.collect_hashset'),
    (r'<.* as Iterator>::collect::<HashMap<.*>>$', 'M.collect_hashmap'),
    (r'<.* as Iterator>::count$', 'M.it_count'),
    (r'core::slice::<impl \[.*\]>::iter(_mut)?$', 'M.slice_iter'),
    (r'<std::ops::Range<usize> as Iterator>::next$', 'M.range_next'),
    # ---- Vec / VecDeque
    (r'Vec::<.*>::new$', 'M.vec_new'),
    (r'VecDeque::<.*>::new$', 'M.vec_new'),
    (r'Vec::<.*>::len$', 'M.vec_len'),
    (r'(Vec|VecDeque)::<.*>::is_empty$', 'M.vec_is_empty'),
    (r'Vec::<.*>::push$', 'M.vec_push'),
    (r'VecDeque::<.*>::push_back$', 'M.vec_push'),
    (r'<Vec<.*> as Index(Mut)?<usize>>::index(_mut)?$', 'M.vec_index'),
    (r'<VecDeque<.*> as Extend<.*>>::extend::<Vec<.*>>$', 'M.vecdeque_extend_vec'),
    (r'VecDeque::<.*>::drain::<RangeFull>$', 'M.vecdeque_drain_full'),
    (r'std::slice::<impl \[&str\]>::join::<&str>$', 'M.slice_join'),
    (r'std::slice::<impl \[&str\]>::sort$', 'M.slice_sort'),
    # ---- HashMap / HashSet
    (r'HashMap::<.*>::new$', 'M.hashmap_new'),
    (r'HashMap::<.*>::get::<.*>$', 'M.hashmap_get'),
    (r'HashMap::<.*>::contains_key::<.*>$', 'M.hashmap_contains_key'),
    (r'HashMap::<.*>::insert$', 'M.hashmap_insert'),
    (r'HashMap::<.*>::remove::<.*>$', 'M.hashmap_remove'),
    (r'HashMap::<.*>::drain$', 'M.hashmap_drain'),
    (r'HashMap::<.*>::keys$', 'M.hashmap_keys'),
    (r'HashSet::<.*>::new$', 'M.hashset_new'),
    (r'HashSet::<.*>::insert$', 'M.hashset_insert'),
    (r'HashSet::<.*>::contains::<.*>$', 'M.hashset_contains'),
    (r'HashSet::<.*>::remove::<.*>$', 'M.hashset_remove'),
    (r'HashSet::<.*>::iter$', 'M.hashset_iter'),
    (r'HashSet::<.*>::intersection$', 'M.hashset_intersection'),
    # ---- str
    (r'core::str::<impl str>::contains::<&str>$', 'M.str_contains'),
    (r'core::str::<impl str>::ends_with::<&String>$', 'M.str_ends_with'),
    (r'core::str::<impl str>::is_empty$', 'M.str_is_empty'),
    (r'core::str::<impl str>::split::<&str>$', 'M.str_split'),
    (r'core::str::<impl str>::split_once::<&str>$', 'M.str_split_once'),
    (r'String::push_str$', 'M.string_push_str'),
    (r'String::new$', 'M.string_new'),
    # ---- fmt / log / panic
    (r'core::fmt::rt::Argument::<>::new_display::<.*>$', 'M.fmt_display'),
    (r'core::fmt::rt::Argument::<>::new_debug::<.*>$', 'M.fmt_debug'),
    (r'core::fmt::rt::Argument::new_display::<.*>$', 'M.fmt_display'),
    (r'core::fmt::rt::Argument::new_debug::<.*>$', 'M.fmt_debug'),
    (r'Arguments::(<>::)?new::<\d+, \d+>$', 'M.fmt_args_new'),
    (r'Arguments::(<>::)?from_str$', 'M.fmt_args_from_str'),
    (r'std::fmt::format$', 'M.fmt_format'),
    (r'max_level$', 'M.log_max_level'),
    (r'<Level as PartialOrd<LevelFilter>>::le$', 'M.level_le_filter'),
    (r'log::__private_api_log$', 'M.log_private_api_log'),
    (r'log::__private_api::log.*$', 'M.log_private_api_log'),
    (r'std::rt::begin_panic::<&str>$', 'M.begin_panic'),
    (r'panic$', 'M.panic_str'),
    (r'core::panicking::panic$', 'M.panic_str'),
    (r'panic_fmt$', 'M.panic_fmt'),
    (r'core::panicking::panic_fmt$', 'M.panic_fmt'),
    # ---- petgraph
    (r'GraphMap::<usize, EdgeInfo, Directed>::new$', 'M.graph_new'),
    (r'GraphMap::<usize, EdgeInfo, Directed>::add_node$', 'M.graph_add_node'),
    (r'GraphMap::<usize, EdgeInfo, Directed>::add_edge$', 'M.graph_add_edge'),
    (r'GraphMap::<usize, EdgeInfo, Directed>::remove_node$', 'M.graph_remove_node'),
    (r'GraphMap::<usize, EdgeInfo, Directed>::neighbors_directed$', 'M.graph_neighbors_directed'),
    (r'GraphMap::<usize, EdgeInfo, Directed>::nodes$', 'M.graph_nodes'),
    (r'GraphMap::<usize, EdgeInfo, Directed>::all_edges$', 'M.graph_all_edges'),
    (r'GraphMap::<usize, EdgeInfo, Directed>::edge_weight(_mut)?$', 'M.graph_edge_weight'),
    (r'toposort::<&GraphMap<usize, EdgeInfo, Directed>>$', 'M.graph_toposort'),
]
SIMPLE = [(re.compile(p), m) for p, m in SIMPLE]


def lookup(callee, gen):
    s = norm(callee)
    # ---- closure-carrying adaptors
    m = re.match(r'<.* as Iterator>::(map|filter|filter_map|position)::<', s)
    if m:
        c = _closure(gen, s)
        if c is None:
            return None
        return 'M.it_%s(%s, %s)' % (m.group(1), c[0], c[1])
    if re.match(r'Vec::<.*>::retain::<', s):
        c = _closure(gen, s)
        if c is None:
            return None
        return 'M.vec_retain(%s, %s)' % (c[0], c[1])
    if re.match(r'Option::<.*>::ok_or_else::<', s):
        c = _closure(gen, s)
        if c is None:
            return None
        return 'M.opt_ok_or_else(%s, %s)' % (c[0], c[1])
    m = re.match(r'<(\{closure@[^}]*\}) as Fn(Mut|Once)?<.*>>::call(_mut|_once)?$', s)
    if m:
        c = gen.closure_fn(m.group(1))
        if c is None:
            return None
        # args arrive as (closure_ref, (arg tuple))
        return 'rt.call_closure(%s)' % c[0]
    # ---- PartialEq through references for the crate's own (derived) types
    m = re.match(r'<&(\w+) as PartialEq>::(eq|ne)$', s)
    if m and m.group(1) in ENGINE_EQ_TYPES:
        b = gen.by_canon.get('<%s as PartialEq>::eq' % m.group(1))
        if b is None:
            return None
        return 'M.ref_%s(%s)' % (m.group(2), gen.pyname[id(b)])
    # ---- into_iter: identity for iterators, by-value iteration for Vec
    m = re.match(r'<(.*) as IntoIterator>::into_iter$', s)
    if m:
        if m.group(1).startswith('Vec<'):
            return 'M.vec_into_iter'
        return 'M.identity'
    m = re.match(r'core::panicking::assert_failed::<', s)
    if m:
        return 'M.assert_failed'
    for rx, mdl in SIMPLE:
        if mdl is not None and rx.match(s):
            return mdl
    return None

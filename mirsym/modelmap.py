"""callee string (as printed in MIR) -> Python expression of the model callable (or None = unsupported)."""
import re

CLOSURE_RE = re.compile(r'\{closure@[^}]*\}')


_MODPATH = re.compile(r'\b(?:std|core|alloc|hashbrown|petgraph|indexmap|engine|crate)::(?:[a-z_0-9]+::)*(?=[A-Z])')


def norm(callee):
    s = callee.replace("'_, ", '').replace("'_ ", '').replace("'_", '')
    s = re.sub(r"'[a-z]\w*,? ?", '', s)
    # rustc prints a type with its module path when the short name would be ambiguous in the crate (which a change
    # to the source can cause): `std::collections::HashMap::<..>` and `HashMap::<..>` are the same callee
    s = _MODPATH.sub('', s)
    s = re.sub(r'\b(core|alloc)::(str|slice|num|bool|panicking|fmt|mem|cmp|iter|option|result)\b', r'std::\2', s)
    return s


def _closure(gen, s, which=-1):
    cl = CLOSURE_RE.findall(s)
    if not cl:
        return None
    r = gen.closure_fn(cl[which])
    return r


ENGINE_EQ_TYPES = ('JobStateAlways', 'JobStateEphemeral', 'JobStateOutput', 'ValidationStatus', 'JobState', 'Required',
                   'SignalKind', 'JobKind')

SIMPLE = [
    # ---- Option / Result
    (r'Option::<.*>::unwrap$', 'M.opt_unwrap'),
    (r'Option::<.*>::expect$', 'M.opt_expect'),
    (r'Option::<.*>::is_some$', 'M.opt_is_some'),
    (r'Option::<.*>::is_none$', 'M.opt_is_none'),
    (r'Option::<.*>::as_ref$', 'M.opt_as_ref'),
    (r'Option::<&.*>::cloned$', 'M.opt_cloned'),
    (r'Option::<&String>::map::<Cow<str>, fn\(&String\) -> Cow<str> \{<Cow<str> as From<&String>>::from\}>$', 'M.opt_map_fnitem'),
    (r'Result::<.*>::unwrap$', 'M.res_unwrap'),
    (r'Result::<.*>::expect$', 'M.res_expect'),
    (r'<Result<.*> as Try>::branch$', 'M.try_branch'),
    (r'<Result<.*> as FromResidual<Result<Infallible, .*>>>::from_residual$', 'M.from_residual'),
    # ---- clone / deref / conversions
    (r'<(String|Option<String>|HashMap<.*>|HashSet<.*>|Vec<.*>) as Clone>::clone$', 'M.clone_deref'),
    (r'<String as Deref>::deref$', 'M.ref_identity'),
    (r'<Vec<.*> as Deref(Mut)?>::deref(_mut)?$', 'M.ref_identity'),
    (r'<(PathBuf|Rc<.*>|Ref<.*>) as Deref>::deref$', 'M.ref_identity'),
    (r'RefCell::<.*>::borrow$', 'M.ref_identity'),
    (r'<Cow<str> as Deref>::deref$', 'M.cow_deref'),
    (r'<Cow<str> as From<&String>>::from$', 'M.cow_from_ref'),
    (r'<&?&?(str|String) as ToString>::to_string$', 'M.str_to_string'),
    (r'must_use::<.*>$', 'M.identity'),
    (r'<.* as Into<.*>>::into$', 'M.identity'),
    # ---- string equality (decision points when a value is symbolic)
    (r'<&?&?(String|str) as PartialEq(<&?(str|String)>)?>::eq$', 'M.s_eq'),
    (r'<&?&?(String|str) as PartialEq(<&?(str|String)>)?>::ne$', 'M.s_ne'),
    (r'<usize as PartialEq>::eq$', 'M.usize_eq'),
    # ---- iterators
    (r'<.* as IntoIterator>::into_iter$', None),   # handled below (Vec by value vs iterator identity)
    (r'<(std::ops::)?Range<usize> as Iterator>::next$', 'M.range_next'),
    (r'<(std::ops::)?RangeInclusive<usize> as Iterator>::next$', 'M.range_inclusive_next'),
    (r'<Rev<(std::ops::)?Range<usize>> as Iterator>::next$', 'M.range_rev_next'),
    (r'<(std::ops::)?Range<usize> as Iterator>::rev$', 'M.range_rev'),
    (r'<.* as Iterator>::next$', 'M.it_next'),
    (r'<.* as Iterator>::enumerate$', 'M.it_enumerate'),
    (r'<.* as Iterator>::rev$', 'M.it_rev'),
    (r'<.* as Iterator>::collect::<Vec<.*>>$', 'M.collect_vec'),
    (r'<.* as Iterator>::collect::<HashSet<.*>>$', 'M.collect_hashset'),
    (r'<.* as Iterator>::collect::<HashMap<.*>>$', 'M.collect_hashmap'),
    (r'<.* as Iterator>::count$', 'M.it_count'),
    (r'std::slice::<impl \[.*\]>::iter(_mut)?$', 'M.slice_iter'),
    (r'<std::ops::Range<usize> as Iterator>::next$', 'M.range_next'),
    # ---- Vec / VecDeque
    (r'Vec::<.*>::new$', 'M.vec_new'),
    (r'VecDeque::<.*>::new$', 'M.vec_new'),
    (r'Vec::<.*>::len$', 'M.vec_len'),
    (r'(Vec|VecDeque)::<.*>::is_empty$', 'M.vec_is_empty'),
    (r'Vec::<.*>::push$', 'M.vec_push'),
    (r'VecDeque::<.*>::push_back$', 'M.vec_push'),
    (r'<Vec<.*> as Index(Mut)?<usize>>::index(_mut)?$', 'M.vec_index'),
    (r'<VecDeque<.*> as Extend<.*>>::extend::<Vec<.*>>$', 'M.vecdeque_extend_vec'),
    (r'VecDeque::<.*>::drain::<RangeFull>$', 'M.vecdeque_drain_full'),
    (r'std::slice::<impl \[&str\]>::join::<&str>$', 'M.slice_join'),
    (r'std::slice::<impl \[&str\]>::sort$', 'M.slice_sort'),
    # ---- HashMap / HashSet
    (r'HashMap::<.*>::new$', 'M.hashmap_new'),
    (r'HashMap::<.*>::get::<.*>$', 'M.hashmap_get'),
    (r'HashMap::<.*>::contains_key::<.*>$', 'M.hashmap_contains_key'),
    (r'HashMap::<.*>::insert$', 'M.hashmap_insert'),
    (r'HashMap::<.*>::remove::<.*>$', 'M.hashmap_remove'),
    (r'HashMap::<.*>::drain$', 'M.hashmap_drain'),
    (r'HashMap::<.*>::keys$', 'M.hashmap_keys'),
    (r'HashSet::<.*>::new$', 'M.hashset_new'),
    (r'HashSet::<.*>::insert$', 'M.hashset_insert'),
    (r'HashSet::<.*>::contains::<.*>$', 'M.hashset_contains'),
    (r'HashSet::<.*>::remove::<.*>$', 'M.hashset_remove'),
    (r'HashSet::<.*>::iter$', 'M.hashset_iter'),
    (r'HashSet::<.*>::intersection$', 'M.hashset_intersection'),
    # ---- str
    (r'std::str::<impl str>::contains::<&str>$', 'M.str_contains'),
    (r'std::str::<impl str>::ends_with::<&String>$', 'M.str_ends_with'),
    (r'std::str::<impl str>::is_empty$', 'M.str_is_empty'),
    (r'std::str::<impl str>::split::<&str>$', 'M.str_split'),
    (r'std::str::<impl str>::split_once::<&str>$', 'M.str_split_once'),
    (r'String::push_str$', 'M.string_push_str'),
    (r'String::new$', 'M.string_new'),
    # ---- fmt / log / panic
    (r'std::fmt::rt::Argument::<>::new_display::<.*>$', 'M.fmt_display'),
    (r'Argument::(<>::)?new_display::<.*>$', 'M.fmt_display'),
    (r'Argument::(<>::)?new_debug::<.*>$', 'M.fmt_debug'),
    (r'std::fmt::rt::Argument::<>::new_debug::<.*>$', 'M.fmt_debug'),
    (r'std::fmt::rt::Argument::new_display::<.*>$', 'M.fmt_display'),
    (r'std::fmt::rt::Argument::new_debug::<.*>$', 'M.fmt_debug'),
    (r'Arguments::(<>::)?new::<\d+, \d+>$', 'M.fmt_args_new'),
    (r'Arguments::(<>::)?from_str$', 'M.fmt_args_from_str'),
    (r'std::fmt::format$', 'M.fmt_format'),
    (r'max_level$', 'M.log_max_level'),
    (r'<Level as PartialOrd<LevelFilter>>::le$', 'M.level_le_filter'),
    (r'log::__private_api_log$', 'M.log_private_api_log'),
    (r'log::__private_api::log.*$', 'M.log_private_api_log'),
    (r'std::rt::begin_panic::<&str>$', 'M.begin_panic'),
    (r'panic$', 'M.panic_str'),
    (r'std::panicking::panic$', 'M.panic_str'),
    (r'panic_fmt$', 'M.panic_fmt'),
    (r'std::panicking::panic_fmt$', 'M.panic_fmt'),
    # ---- petgraph
    (r'GraphMap::<usize, EdgeInfo, Directed>::new$', 'M.graph_new'),
    (r'GraphMap::<usize, EdgeInfo, Directed>::add_node$', 'M.graph_add_node'),
    (r'GraphMap::<usize, EdgeInfo, Directed>::add_edge$', 'M.graph_add_edge'),
    (r'GraphMap::<usize, EdgeInfo, Directed>::remove_node$', 'M.graph_remove_node'),
    (r'GraphMap::<usize, EdgeInfo, Directed>::neighbors_directed$', 'M.graph_neighbors_directed'),
    (r'GraphMap::<usize, EdgeInfo, Directed>::nodes$', 'M.graph_nodes'),
    (r'GraphMap::<usize, EdgeInfo, Directed>::all_edges$', 'M.graph_all_edges'),
    (r'GraphMap::<usize, EdgeInfo, Directed>::edge_weight(_mut)?$', 'M.graph_edge_weight'),
    (r'toposort::<&GraphMap<usize, EdgeInfo, Directed>>$', 'M.graph_toposort'),

    # ======== models2: API beyond what the current source uses
    (r'<.* as Iterator>::sum::<usize>$', 'M.it_sum'),
    (r'<.* as Iterator>::max$', 'M.it_max'),
    (r'<.* as Iterator>::min$', 'M.it_min'),
    (r'<.* as Iterator>::last$', 'M.it_last'),
    (r'<.* as Iterator>::nth$', 'M.it_nth'),
    (r'<.* as Iterator>::chain::<.*>$', 'M.it_chain'),
    (r'<.* as Iterator>::zip::<.*>$', 'M.it_zip'),
    (r'<.* as Iterator>::skip$', 'M.it_skip'),
    (r'<.* as Iterator>::take$', 'M.it_take'),
    (r'<.* as Iterator>::(cloned|copied)::<.*>$', 'M.it_cloned'),
    (r'<.* as Iterator>::peekable$', 'M.it_peekable'),
    (r'Peekable::<.*>::peek$', 'M.peekable_peek'),
    (r'RangeInclusive::<usize>::new$', 'M.range_inclusive_new'),
    (r'<(std::ops::)?RangeInclusive<usize> as Iterator>::next$', 'M.range_inclusive_next'),
    (r'<(std::ops::)?Range<usize> as Iterator>::rev$', 'M.range_rev'),
    (r'<Rev<(std::ops::)?Range<usize>> as Iterator>::next$', 'M.range_rev_next'),
    (r'std::slice::<impl \[.*\]>::contains$', 'M.slice_contains'),
    (r'std::slice::<impl \[.*\]>::first(_mut)?$', 'M.slice_first'),
    (r'std::slice::<impl \[.*\]>::last(_mut)?$', 'M.slice_last'),
    (r'std::slice::<impl \[.*\]>::get(_mut)?::<usize>$', 'M.slice_get'),
    (r'std::slice::<impl \[.*\]>::reverse$', 'M.slice_reverse'),
    (r'std::slice::<impl \[.*\]>::swap$', 'M.slice_swap'),
    (r'std::slice::<impl \[.*\]>::sort(_unstable)?$', 'M.slice_sort_any'),
    (r'std::slice::<impl \[.*\]>::len$', 'M.slice_len'),
    (r'std::slice::<impl \[.*\]>::is_empty$', 'M.slice_is_empty'),
    (r'std::slice::<impl \[.*\]>::join::<&str>$', 'M.slice_join_any'),
    (r'std::slice::<impl \[.*\]>::concat::<.*>$', 'M.slice_concat'),
    (r'Vec::<.*>::pop$', 'M.vec_pop'),
    (r'Vec::<.*>::insert$', 'M.vec_insert'),
    (r'Vec::<.*>::remove$', 'M.vec_remove'),
    (r'Vec::<.*>::swap_remove$', 'M.vec_swap_remove'),
    (r'<Vec<.*> as Extend<.*>>::extend::<.*>$', 'M.vec_extend'),
    (r'Vec::<.*>::extend_from_slice$', 'M.vec_extend_from_slice'),
    (r'Vec::<.*>::clear$', 'M.vec_clear'),
    (r'VecDeque::<.*>::clear$', 'M.vec_clear'),
    (r'VecDeque::<.*>::len$', 'M.vec_len'),
    (r'VecDeque::<.*>::pop_back$', 'M.vec_pop'),
    (r'Vec::<.*>::truncate$', 'M.vec_truncate'),
    (r'Vec::<.*>::with_capacity$', 'M.vec_with_capacity'),
    (r'Vec::<.*>::capacity$', 'M.vec_capacity'),
    (r'Vec::<.*>::reserve$', 'M.vec_reserve'),
    (r'Vec::<.*>::dedup$', 'M.vec_dedup'),
    (r'Vec::<.*>::drain::<RangeFull>$', 'M.vec_drain_full'),
    (r'<Vec<.*> as Index<RangeFull>>::index$', 'M.vec_index_full'),
    (r'<(String|str) as Index<RangeFull>>::index$', 'M.vec_index_full'),
    (r'HashMap::<.*>::get_mut::<.*>$', 'M.hashmap_get_mut'),
    (r'HashMap::<.*>::len$', 'M.hashmap_len'),
    (r'HashMap::<.*>::is_empty$', 'M.hashmap_is_empty'),
    (r'HashMap::<.*>::values(_mut)?$', 'M.hashmap_values'),
    (r'HashMap::<.*>::iter(_mut)?$', 'M.hashmap_iter'),
    (r'HashMap::<.*>::clear$', 'M.hashmap_clear'),
    (r'<HashMap<.*> as Extend<.*>>::extend::<.*>$', 'M.hashmap_extend'),
    (r'HashMap::<.*>::get_key_value::<.*>$', 'M.hashmap_get_key_value'),
    (r'HashMap::<.*>::entry$', 'M.hashmap_entry'),
    (r'Entry::<String, String>::or_default$', 'M.entry_or_default_string'),
    (r'Entry::<String, usize>::or_default$', 'M.entry_or_default_usize'),
    (r'Entry::<.*>::or_insert$', 'M.entry_or_insert'),
    (r'HashSet::<.*>::len$', 'M.hashset_len'),
    (r'HashSet::<.*>::is_empty$', 'M.hashset_is_empty'),
    (r'HashSet::<.*>::clear$', 'M.hashset_clear'),
    (r'<HashSet<.*> as Extend<.*>>::extend::<.*>$', 'M.hashset_extend'),
    (r'HashSet::<.*>::union$', 'M.hashset_union'),
    (r'HashSet::<.*>::difference$', 'M.hashset_difference'),
    (r'HashSet::<.*>::is_subset$', 'M.hashset_is_subset'),
    (r'HashSet::<.*>::is_superset$', 'M.hashset_is_superset'),
    (r'HashSet::<.*>::is_disjoint$', 'M.hashset_is_disjoint'),
    (r'HashSet::<.*>::drain$', 'M.hashset_drain'),
    (r'Option::<.*>::or$', 'M.opt_or'),
    (r'Option::<.*>::zip::<.*>$', 'M.opt_zip'),
    (r'Option::<.*>::unwrap_or$', 'M.opt_unwrap_or'),
    (r'Option::<(usize|u32|u64)>::unwrap_or_default$', 'M.opt_unwrap_or_default_usize'),
    (r'Option::<String>::unwrap_or_default$', 'M.opt_unwrap_or_default_string'),
    (r'Option::<bool>::unwrap_or_default$', 'M.opt_unwrap_or_default_bool'),
    (r'Option::<.*>::ok_or::<.*>$', 'M.opt_ok_or'),
    (r'Option::<.*>::as_deref(_mut)?$', 'M.opt_as_deref'),
    (r'Option::<.*>::as_mut$', 'M.opt_as_ref'),
    (r'Option::<&(mut )?.*>::copied$', 'M.opt_copied'),
    (r'Option::<.*>::take$', 'M.opt_take'),
    (r'Option::<.*>::replace$', 'M.opt_replace'),
    (r'Option::<.*>::insert$', 'M.opt_insert'),
    (r'Option::<.*>::get_or_insert$', 'M.opt_get_or_insert'),
    (r'<Option<.*> as PartialEq>::eq$', 'M.opt_eq'),
    (r'<Option<.*> as PartialEq>::ne$', 'M.opt_ne'),
    (r'Result::<.*>::is_ok$', 'M.res_is_ok'),
    (r'Result::<.*>::is_err$', 'M.res_is_err'),
    (r'Result::<.*>::as_ref$', 'M.res_as_ref'),
    (r'Result::<.*>::ok$', 'M.res_ok'),
    (r'Result::<.*>::err$', 'M.res_err'),
    (r'Result::<.*>::unwrap_or$', 'M.res_unwrap_or'),
    (r'Result::<usize, .*>::unwrap_or_default$', 'M.res_unwrap_or_default_usize'),
    (r'std::str::<impl str>::len$', 'M.str_len'),
    (r'String::len$', 'M.str_len'),
    (r'String::is_empty$', 'M.str_is_empty'),
    (r'String::as_str$', 'M.string_as_str'),
    (r'String::push$', 'M.string_push_char'),
    (r'String::clear$', 'M.string_clear'),
    (r'std::str::<impl str>::starts_with::<&(str|String)>$', 'M.str_starts_with'),
    (r'std::str::<impl str>::ends_with::<&str>$', 'M.str_ends_with2'),
    (r'std::str::<impl str>::contains::<&String>$', 'M.str_contains'),
    (r'std::str::<impl str>::find::<&(str|String)>$', 'M.str_find'),
    (r'std::str::<impl str>::strip_prefix::<&(str|String)>$', 'M.str_strip_prefix'),
    (r'std::str::<impl str>::strip_suffix::<&(str|String)>$', 'M.str_strip_suffix'),
    (r'std::str::<impl str>::rsplit_once::<&str>$', 'M.str_rsplit_once'),
    (r'std::str::<impl str>::trim$', 'M.str_trim'),
    (r'std::str::<impl str>::trim_start_matches::<&str>$', 'M.str_trim_start_matches'),
    (r'std::str::<impl str>::trim_end_matches::<&str>$', 'M.str_trim_end_matches'),
    (r'std::str::<impl str>::replace::<&str>$', 'M.str_replace'),
    (r'std::str::<impl str>::to_lowercase$', 'M.str_to_lowercase'),
    (r'std::str::<impl str>::to_uppercase$', 'M.str_to_uppercase'),
    (r'std::str::<impl str>::split::<char>$', 'M.str_split_char'),
    (r'std::str::<impl str>::rsplit::<&str>$', 'M.str_rsplit'),
    (r'std::str::<impl str>::splitn::<&str>$', 'M.str_splitn'),
    (r'std::str::<impl str>::lines$', 'M.str_lines'),
    (r'std::str::<impl str>::chars$', 'M.str_chars'),
    (r'std::str::<impl str>::bytes$', 'M.str_bytes'),
    (r'<str as ToOwned>::to_owned$', 'M.str_to_owned'),
    (r'<String as From<&(str|String)>>::from$', 'M.str_to_owned'),
    (r'<String as Add<&str>>::add$', 'M.string_add'),
    (r'<String as AsRef<str>>::as_ref$', 'M.string_as_str'),
    (r'<String as Borrow<str>>::borrow$', 'M.string_as_str'),
    (r'<(str|String|&str) as Ord>::cmp$', 'M.str_cmp'),
    (r'<&?(str|String) as PartialOrd(<.*>)?>::lt$', 'M.str_lt'),
    (r'<&?(str|String) as PartialOrd(<.*>)?>::le$', 'M.str_le'),
    (r'<&?(str|String) as PartialOrd(<.*>)?>::gt$', 'M.str_gt'),
    (r'<&?(str|String) as PartialOrd(<.*>)?>::ge$', 'M.str_ge'),
    (r'<(String|&str|str) as PartialEq<(String|&str|str|&String)>>::eq$', 'M.s_eq'),
    (r'<(String|&str|str) as PartialEq<(String|&str|str|&String)>>::ne$', 'M.s_ne'),
    (r'std::num::<impl usize>::saturating_sub$', 'M.usize_saturating_sub'),
    (r'std::num::<impl usize>::saturating_add$', 'M.usize_saturating_add'),
    (r'std::num::<impl usize>::checked_add$', 'M.usize_checked_add'),
    (r'std::num::<impl usize>::checked_sub$', 'M.usize_checked_sub'),
    (r'std::num::<impl usize>::wrapping_add$', 'M.usize_wrapping_add'),
    (r'std::num::<impl usize>::wrapping_sub$', 'M.usize_wrapping_sub'),
    (r'std::num::<impl usize>::pow$', 'M.usize_pow'),
    (r'std::num::<impl usize>::abs_diff$', 'M.usize_abs_diff'),
    (r'<(usize|u32|u64) as Ord>::max$', 'M.ord_max'),
    (r'<(usize|u32|u64) as Ord>::min$', 'M.ord_min'),
    (r'<(usize|u32|u64) as Ord>::cmp$', 'M.usize_cmp'),
    (r'<&?(usize|u32|u64) as PartialOrd>::partial_cmp$', 'M.usize_partial_cmp'),
    (r'Ordering::reverse$', 'M.ordering_reverse'),
    (r'Ordering::then$', 'M.ordering_then'),
    (r'std::cmp::max::<.*>$', 'M.ord_max'),
    (r'std::cmp::min::<.*>$', 'M.ord_min'),
    (r'<(usize|u32) as PartialEq>::ne$', 'M.usize_ne'),
    (r'<&usize as Add<usize>>::add$', 'M.add_ref_usize'),
    (r'<usize as Add<&usize>>::add$', 'M.add_ref_usize'),
    (r'<usize as AddAssign<&usize>>::add_assign$', 'M.add_assign_ref'),
    (r'std::mem::replace::<.*>$', 'M.mem_replace'),
    (r'std::mem::swap::<.*>$', 'M.mem_swap'),
    (r'std::mem::take::<Vec<.*>>$', 'M.mem_take_vec'),
    (r'std::mem::take::<VecDeque<.*>>$', 'M.mem_take_vec'),
    (r'std::mem::take::<String>$', 'M.mem_take_string'),
    (r'std::mem::take::<HashMap<.*>>$', 'M.mem_take_hashmap'),
    (r'std::mem::take::<HashSet<.*>>$', 'M.mem_take_hashset'),
    (r'std::mem::take::<Option<.*>>$', 'M.mem_take_option'),
    (r'std::bool::<impl bool>::then_some::<.*>$', 'M.bool_then_some'),
    (r'Box::<[^{}]*>::new$', 'M.box_new'),
    (r'Box::<\[.*\]>::new_uninit$', 'M.box_new_uninit'),
    (r'std::boxed::box_assume_init_into_vec_unsafe::<.*>$', 'M.box_assume_init_into_vec'),
    (r'GraphMap::<usize, EdgeInfo, Directed>::edges_directed$', 'M.graph_edges_directed'),
    (r'GraphMap::<usize, EdgeInfo, Directed>::edges$', 'M.graph_edges'),
    (r'GraphMap::<usize, EdgeInfo, Directed>::neighbors$', 'M.graph_neighbors'),
    (r'GraphMap::<usize, EdgeInfo, Directed>::contains_edge$', 'M.graph_contains_edge'),
    (r'GraphMap::<usize, EdgeInfo, Directed>::contains_node$', 'M.graph_contains_node'),
    (r'GraphMap::<usize, EdgeInfo, Directed>::node_count$', 'M.graph_node_count'),
    (r'GraphMap::<usize, EdgeInfo, Directed>::edge_count$', 'M.graph_edge_count'),
    (r'GraphMap::<usize, EdgeInfo, Directed>::remove_edge$', 'M.graph_remove_edge'),
]
SIMPLE = [(re.compile(p), m) for p, m in SIMPLE]


def lookup(callee, gen):
    s = norm(callee)
    # ---- closure-carrying adaptors
    m = re.match(r'<.* as Iterator>::(map|filter|filter_map|position|any|all|find|find_map|fold|for_each|take_while|skip_while|'
                 r'flat_map|max_by_key|min_by_key)::<', s)
    if m:
        c = _closure(gen, s)
        if c is None:
            return None
        return 'M.it_%s(%s, %s)' % (m.group(1), c[0], c[1])
    m = re.match(r'Option::<.*>::(map|and_then|filter|or_else|is_some_and|is_none_or|unwrap_or_else|map_or)::<', s)
    if m and CLOSURE_RE.search(s):
        c = _closure(gen, s)
        if c is None:
            return None
        return 'M.opt_%s(%s, %s)' % (m.group(1), c[0], c[1])
    m = re.match(r'Result::<.*>::(map|map_err|and_then|unwrap_or_else)::<', s)
    if m and CLOSURE_RE.search(s):
        c = _closure(gen, s)
        if c is None:
            return None
        return 'M.res_%s(%s, %s)' % (m.group(1), c[0], c[1])
    m = re.match(r'(HashMap|HashSet)::<.*>::retain::<', s)
    if m:
        c = _closure(gen, s)
        if c is None:
            return None
        return 'M.%s_retain(%s, %s)' % (m.group(1).lower(), c[0], c[1])
    m = re.match(r'std::slice::<impl \[.*\]>::(sort_by|sort_unstable_by|sort_by_key|sort_unstable_by_key|sort_by_cached_key)::<', s)
    if m:
        c = _closure(gen, s)
        if c is None:
            return None
        return 'M.slice_%s(%s, %s)' % ('sort_by_key' if 'key' in m.group(1) else 'sort_by', c[0], c[1])
    if re.match(r'Entry::<.*>::or_insert_with::<', s):
        c = _closure(gen, s)
        if c is None:
            return None
        return 'M.entry_or_insert_with(%s, %s)' % (c[0], c[1])
    if re.match(r'std::bool::<impl bool>::then::<', s):
        c = _closure(gen, s)
        if c is None:
            return None
        return 'M.bool_then(%s, %s)' % (c[0], c[1])
    if re.match(r'Vec::<.*>::retain::<', s):
        c = _closure(gen, s)
        if c is None:
            return None
        return 'M.vec_retain(%s, %s)' % (c[0], c[1])
    if re.match(r'Option::<.*>::ok_or_else::<', s):
        c = _closure(gen, s)
        if c is None:
            return None
        return 'M.opt_ok_or_else(%s, %s)' % (c[0], c[1])
    m = re.match(r'<(\{closure@[^}]*\}) as Fn(Mut|Once)?<.*>>::call(_mut|_once)?$', s)
    if m:
        c = gen.closure_fn(m.group(1))
        if c is None:
            return None
        # args arrive as (closure_ref, (arg tuple))
        return 'rt.call_closure(%s)' % c[0]
    # ---- PartialEq through references for the crate's own (derived) types
    m = re.match(r'<&(\w+) as PartialEq>::(eq|ne)$', s)
    if m and gen.by_canon.get('<%s as PartialEq>::eq' % m.group(1)) is not None:
        b = gen.by_canon.get('<%s as PartialEq>::eq' % m.group(1))
        return 'M.ref_%s(%s)' % (m.group(2), gen.pyname[id(b)])
    # ---- `!=` on the crate's own derive(PartialEq) types: PartialEq::ne has no body in the crate (default method)
    m = re.match(r'<(\w+) as PartialEq>::ne$', s)
    if m and gen.by_canon.get('<%s as PartialEq>::eq' % m.group(1)) is not None:
        b = gen.by_canon.get('<%s as PartialEq>::eq' % m.group(1))
        return 'M.ne_of(%s)' % gen.pyname[id(b)]
    # ---- into_iter: identity for iterators, by-value iteration for Vec
    m = re.match(r'<(.*) as IntoIterator>::into_iter$', s)
    if m:
        t = m.group(1)
        if t.startswith('Vec<'):
            return 'M.vec_into_iter'
        if t.startswith(('&Vec<', '&mut Vec<', '&[', '&mut [')):
            return 'M.slice_iter'
        if t.startswith(('&HashSet<', '&mut HashSet<')):
            return 'M.hashset_iter'
        if t.startswith('HashSet<'):
            return 'M.hashset_into_iter'
        if t.startswith(('&HashMap<', '&mut HashMap<')):
            return 'M.hashmap_iter'
        if t.startswith('HashMap<'):
            return 'M.hashmap_into_iter'
        if t.startswith('Option<'):
            return 'M.into_iter_any'
        if t.startswith('['):
            return 'M.array_into_iter'
        return 'M.identity'
    m = re.match(r'(std::panicking::)?assert_failed::<', s)
    if m:
        return 'M.assert_failed'
    for rx, mdl in SIMPLE:
        if mdl is not None and rx.match(s):
            return mdl
    return None

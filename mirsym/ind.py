"""H-IND (C01): incremental evaluation yields what a clean build would yield -- one inductive step.

Job behaviour is an uninterpreted function of the *contents* a job consumes (f_j per job and input list), an
Always job's output is a fresh value per evaluation ("inputs change").  The starting history H0 and the existing
result files are arbitrary subject to the invariant Sound:

    for every Output/Ephemeral job j whose records H0[j], H0[j!!!] are present, whose recorded input-name list is the
    current one and whose per-dependency records H0[u!!!j] are all present:
         content(H0[j]) = f_j(content(H0[u!!!j]) for u in inputs)            -- "the record is what those inputs produce"
    and for an Output job whose result file exists and which has a record:   content(file_j) = content(H0[j])
         -- "no failed attempt has touched it since" (a failed job loses its record: C08)

One symbolic evaluation (every schedule, every failure subset, abort anywhere) is explored.  Obligations, each a z3
validity query  Sound(H0) /\ path-condition => ... :
   (i)  Sound(H1, files1) for the returned history on EVERY completed path (so the step composes to chains of any
        length, with arbitrary edits in between: the next evaluation's H0 is again only assumed Sound),
   (ii) on every completed path without failed / upstream-failed / aborted job:  for every Output job j
        content(files1[j]) = clean_j   where clean_j = f_j(clean_u ...) and clean_A = what the Always job A reported.

content(x) = x under string comparison (S-test);  = the class of x under the configured comparison (S-rel: arbitrary
equivalence relation, the reported string additionally carries an arbitrary 'stamp' the comparison ignores)."""
import time
from . import rt, sym as F, explore as X, monitors as Mo, harness as H, cex
from .rt import Out


class Sem:
    """content-level vocabulary for one comparison mode"""

    def __init__(self, mode):
        self.mode = mode

    def content(self, t):
        return t if self.mode == 'ident' else ('cls', t)

    def fn(self, j, names, args):
        tag = 'f_%s_%s' % (j, names.replace('\n', '+'))
        if self.mode == 'ident':
            return ('app', tag) + tuple(args)
        return ('capp', tag) + tuple(args)

    def same(self, a, b):
        return F.Eq(a, b) if self.mode == 'ident' else F.CEq(a, b)


def edge_alternatives(uni, entry, u, j):
    """records that can stand for "what j consumed from u": the direct record, else (the engine's rematching of a
    multi-output upstream that changed its id) the record under a historical id sharing an output with u, best
    overlap first.  Returns [(presence, value)] or None when the rematching is ambiguous."""
    alts = []
    pe, ve = entry('%s!!!%s' % (u, j))
    if pe is not False:
        alts.append((pe, ve))
    parts = set(u.split(':::'))
    suffix = '!!!' + j
    cands = []
    for k in uni.hist_spec:
        if k.endswith(suffix) and k != u + suffix:
            x = k[:-len(suffix)]
            if not x or '!!!' in x or x in uni.kind:
                continue
            ov = len(parts & set(x.split(':::')))
            if ov > 0:
                cands.append((ov, k))
    cands.sort(key=lambda t: -t[0])
    if len(cands) > 1 and cands[0][0] == cands[1][0]:
        return None
    for ov, k in cands:
        p, v = entry(k)
        if p is not False:
            alts.append((p, v))
    return alts


def sound_formula(sem, uni, entry, file_term, file_present):
    """Sound over (history accessor entry(key)->(presence, value), file content terms, file presence formulas)"""
    import itertools
    conj = []
    for j in uni.ids:
        if uni.kind[j] == 'Always':
            continue
        p, v = entry(j)
        pn, vn = entry(j + '!!!')
        if p is False or pn is False:
            continue
        pre0 = [F.Atom(p), F.Atom(pn), F.Eq(rt.term_of(vn), ('lit', uni.names(j)))]
        per_edge = []
        ok = True
        for u in uni.ups[j]:
            alts = edge_alternatives(uni, entry, u, j)
            if not alts:
                ok = False
                break
            # choice k: alternatives before k absent, k present
            ch = []
            absent = []
            for (pe, ve) in alts:
                ch.append((F.And(*(absent + [F.Atom(pe)])), sem.content(rt.term_of(ve))))
                absent = absent + [F.Not(F.Atom(pe))]
            per_edge.append(ch)
        if ok:
            for combo in itertools.product(*per_edge):
                pre = pre0 + [c[0] for c in combo]
                args = [c[1] for c in combo]
                conj.append(F.Implies(F.And(*pre), sem.same(sem.content(rt.term_of(v)), sem.fn(j, uni.names(j), args))))
        if uni.kind[j] == 'Output' and file_term.get(j) is not None:
            conj.append(F.Implies(F.And(F.Atom(p), file_present(j)),
                                  sem.same(sem.content(file_term[j]), sem.content(rt.term_of(v)))))
    return F.And(*conj)


def hind_universe(mod, nodes, edges, mode, name='', stale=(), evalno=1, built=False):
    uni = H.make_universe(mod, nodes, edges, mode, name=name, stale=stale, built=built)
    sem = Sem(mode)
    uni.sem = sem
    uni.evalno = evalno
    uni.file0 = {j: ('file%d' % evalno, j) for j, k in nodes if k == 'Output'}

    def entry(key):
        return Mo.spec_entry(uni, key)

    def fpres(j):
        sp = uni.present_spec.get(j)
        return F.Atom(sp) if sp is not None else F.FALSE
    uni.sound0 = sound_formula(sem, uni, entry, uni.file0, fpres)
    uni.axioms = list(getattr(uni, 'axioms', None) or []) + [uni.sound0]
    install_behaviour(uni)
    return uni


def install_behaviour(uni):
    sem = uni.sem
    evalno = uni.evalno

    def consumed_terms(st, j):
        """what j reads from each direct upstream -- the *materialised* product, not what the engine reports:
        an Ephemeral / Always upstream only has a product if it was executed successfully in this evaluation (None = the
        input is missing: j's output is then arbitrary); an Output upstream that was not executed is read from its result
        file as it lies on disk"""
        cons = dict(dict(st.dv.consumed).get(j, ()))
        okd = st.dv.ok_dict()
        out = []
        for u in uni.ups[j]:
            if u in okd:
                out.append(okd[u])
            elif uni.kind[u] == 'Output' and getattr(uni, 'file0', {}).get(u) is not None and u not in st.dv.failed:
                out.append(uni.file0[u])
            else:
                out.append(None)
        return out

    def output_term(ex, st, j):
        if uni.kind[j] == 'Always':
            return ('o%d' % evalno, j)
        if sem.mode == 'ident':
            if st is None:
                return ('o%d' % evalno, j)
            args = consumed_terms(st, j)
            if any(a is None for a in args):
                return ('o%d' % evalno, j)          # an input was not materialised (C02's business): arbitrary output
            return sem.fn(j, uni.names(j), args)
        return ('o%d' % evalno, j)

    def output_assume(ex, st, j, t):
        if uni.kind[j] == 'Always' or sem.mode == 'ident':
            return []
        args = consumed_terms(st, j)
        if any(a is None for a in args):
            return []
        return [('ceq', ('cls', t), sem.fn(j, uni.names(j), [sem.content(a) for a in args]))]
    uni.output_term = output_term
    uni.output_assume = output_assume


def files_after(uni, st):
    """(content term of each Output job's result after the evaluation, presence formula)"""
    okd = st.dv.ok_dict()
    ft = {}
    fp = {}
    for j in uni.ids:
        if uni.kind[j] != 'Output':
            continue
        if j in okd:
            ft[j] = okd[j]
            fp[j] = F.TRUE
        elif j in st.dv.failed or j in st.dv.at_abort:
            # a failed / interrupted attempt may have left the old result, removed it, or left garbage
            ft[j] = ('garbage%d' % uni.evalno, j)
            fp[j] = F.Atom(('present3', j, uni.evalno))
        else:
            ft[j] = uni.file0[j]
            sp = uni.present_spec.get(j)
            fp[j] = F.Atom(sp) if sp is not None else F.FALSE
    return ft, fp


def clean_terms(uni, st):
    """content of every job's product in a from-scratch build of the current graph (same Always outputs)"""
    sem = uni.sem
    okd = st.dv.ok_dict()
    clean = {}
    for j in uni.topo_order():
        if uni.kind[j] == 'Always':
            t = okd.get(j)
            clean[j] = sem.content(t) if t is not None else None
        else:
            args = [clean[u] for u in uni.ups[j]]
            clean[j] = None if any(a is None for a in args) else sem.fn(j, uni.names(j), args)
    return clean


class CleanBuildMonitor(X.Monitor):
    props = ('C01',)

    def bind(self, ex):
        X.Monitor.bind(self, ex)
        self.obligations = 0
        self.discharged = 0
        self.unsound_finals = []

    def oblige(self, st, f, what, detail=None):
        self.obligations += 1
        ok, model = self.ex.z.valid_f(st.pc, st.fpc(), f)
        if ok:
            self.discharged += 1
            return True
        self.ex.report('C01', what, st, model=model, detail=detail)
        return False

    def on_final(self, st):
        ex = self.ex
        uni = self.uni
        dv = st.dv
        if st.result != 'ok' or st.hist is None:
            return
        sem = uni.sem
        uf = st.eng.query_upstream_failed()
        faulty = bool(dv.failed) or dv.aborted or bool(uf)
        ft, fp = files_after(uni, st)
        if not faulty:
            clean = clean_terms(uni, st)
            for j in uni.ids:
                if uni.kind[j] != 'Output':
                    continue
                if clean[j] is None:
                    ex.report('C01', 'failure-free evaluation did not execute an Always job above %s' % j, st, detail=('clean', j))
                    continue
                f = F.And(fp[j], sem.same(sem.content(ft[j]), clean[j]))
                self.oblige(st, f, 'evaluation finished without failures but the result of Output job %s is not what a clean build produces' % j,
                            detail=('clean', j))
        h1 = st.hist

        def entry(key):
            return Mo.h_entry(h1, key)
        s1 = sound_formula(sem, uni, entry, ft, lambda j: fp[j])
        if not self.oblige(st, s1, 'returned history vouches for a result that its recorded inputs do not produce (history invariant broken)',
                           detail=('sound',)):
            self.unsound_finals.append(st)


def run_instance(mod, nodes, edges, mode, deadline=None, stale=(), max_states=400000):
    uni = hind_universe(mod, nodes, edges, mode, stale=stale)
    mon = CleanBuildMonitor()
    ex = X.Explorer(uni, [mon], max_states=max_states)
    ex.run(deadline=deadline)
    return ex, mon


# ------------------------------------------------------------------------------------------------ follow-up evaluation
def followup_universe(ex, st, name=''):
    """the next evaluation of the same graph from the history and the files the (possibly interrupted) evaluation
    ending in st left behind; Always jobs report fresh values again"""
    uni = ex.uni
    h = st.hist
    hist = {}
    for k, v in h.d.items():
        p = h.pres.get(k) if h.pres else None
        hist[k] = (v, True if p is None else p)
    ft, fp = files_after(uni, st)
    present = {}
    for j, f in fp.items():
        if f is F.TRUE:
            present[j] = True
        elif f[0] == 'atom':
            present[j] = f[1]
    u2 = X.Universe(uni.mod, uni.nodes, uni.edges, uni.mode, hist, present, name=name or uni.name + '+1')
    u2.initial_pc = dict(st.pc)
    u2.sem = uni.sem
    u2.evalno = uni.evalno + 1
    u2.file0 = ft
    u2.axioms = list(getattr(uni, 'axioms', None) or [])
    u2.prev = (ex, st)
    install_behaviour(u2)
    return u2


def final_key(st):
    h = st.hist
    hk = tuple(sorted((k, repr(Mo.h_entry(h, k)[0]), repr(rt.term_of(v))) for k, v in h.d.items()))
    return (frozenset(st.pc.items()), hk, st.dv.ok, st.dv.failed, st.dv.at_abort, st.dv.aborted)


def explain(z, model, uni, st, j):
    """model values of the result of j after st and of the clean-build reference (for the counterexample file)"""
    sem = uni.sem
    ft, fp = files_after(uni, st)
    clean = clean_terms(uni, st)

    def val(t):
        if t is None:
            return None
        zt = z.cterm(t) if t[0] in ('cls', 'capp') else z.term(t)
        return str(model.eval(zt, model_completion=True))
    return {'job': j, 'executed': j in st.dv.started, 'result_term': repr(ft[j]), 'clean_term': repr(clean[j]),
            'result_value': val(sem.content(ft[j])), 'clean_value': val(clean[j])}


def run_c01_instance(mod, nodes, edges, mode, deadline=None, stale=(), max_followups=6, built=False):
    """returns (stats, violations) in the format of chain.run_*_instance"""
    uni = hind_universe(mod, nodes, edges, mode, stale=stale, built=built)
    mon = CleanBuildMonitor()
    ex = X.Explorer(uni, [mon])
    ex.run(deadline=deadline)
    z = ex.z
    stats = {'states': ex.n_states, 'transitions': ex.n_transitions, 'events': ex.n_events, 'finals': len(ex.finals),
             'obligations': mon.obligations, 'discharged': mon.discharged, 'capped': ex.capped,
             'unsound_finals': len(mon.unsound_finals), 'followups': 0, 'followups_without_wrong_result': 0}
    if ex.finals:
        _s = ex.finals[0]
        stats['sample'] = {'path': [[list(a), r] for a, r in _s.path()], 'path_condition': [[repr(a), b] for a, b in sorted(_s.pc.items(), key=repr)][:40]}
    viols = []

    def add(what, kind, st1, st2, u2, model, pcset, j):
        if len(viols) >= 4:
            return
        try:
            if model is None:
                model = z.model_for(pcset)
            c = cex.Concretizer(z, uni, model)
            v = {'prop': 'C01', 'what': what, 'kind': kind,
                 'scenario': c.scenario(uni, st1.path(), 'eval1', outs=st1.path_outs()).to_json(),
                 'depth': st1.depth + (st2.depth if st2 is not None else 0),
                 'pc': [[repr(a), b] for a, b in sorted(pcset, key=repr)]}
            if st2 is not None:
                v['chain'] = True
                v['scenario2'] = c.scenario(u2, st2.path(), 'eval2', outs=st2.path_outs()).to_json()
                v['c01'] = explain(z, model, u2, st2, j)
            else:
                v['c01'] = explain(z, model, uni, st1, j)
            viols.append(v)
        except rt.Unsupported as e:
            stats.setdefault('concretize_errors', []).append(str(e)[:200])

    # (ii) violated within the one evaluation
    for v in ex.violations:
        if v.detail and v.detail[0] == 'clean':
            add(v.what, 'single', v.state, None, None, v.model, frozenset(v.state.pc.items()), v.detail[1])
    # (i) violated: does a further evaluation from the returned history produce a wrong result?
    seen = set()
    unsound = sorted(mon.unsound_finals, key=lambda s: s.depth)
    confirmed = 0
    for st1 in unsound:
        k = final_key(st1)
        if k in seen:
            continue
        seen.add(k)
        if stats['followups'] >= max_followups or confirmed >= 2:
            break
        stats['followups'] += 1
        u2 = followup_universe(ex, st1)
        m2 = CleanBuildMonitor()
        ex2 = X.Explorer(u2, [m2], fail_actions=False, abort_actions=False)
        ex2.z = z
        ex2.run(deadline=deadline)
        stats['states'] += ex2.n_states
        stats['transitions'] += ex2.n_transitions
        stats['events'] += ex2.n_events
        stats['finals'] += len(ex2.finals)
        stats['obligations'] += m2.obligations
        stats['discharged'] += m2.discharged
        stats['capped'] = stats['capped'] or ex2.capped
        hit = False
        for v in ex2.violations:
            if v.detail and v.detail[0] == 'clean':
                add('after an interrupted or partial evaluation, the next evaluation finished without failures but the result of Output job %s '
                    'is not what a clean build produces' % v.detail[1], 'chain', st1, v.state, u2, v.model, frozenset(v.state.pc.items()), v.detail[1])
                hit = True
                confirmed += 1
                break
        if not hit:
            stats['followups_without_wrong_result'] += 1
    stats['solver'] = z.stats.to_json()
    return stats, viols

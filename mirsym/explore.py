"""Symbolic-state exploration of one evaluation of the generated engine (harness family H-EVAL and friends).

Search unit: driver event.  Between events the engine is quiescent; (engine value, driver view, path condition)
is checkpointed, canonicalised and de-duplicated.  Inside an event symbolic branches (record presence, string
equality / comparison relation atoms) are resolved by decision-prefix re-execution against z3.
"""
import sys, time, itertools
from . import rt, models as M, engine_api as E, sym
from .rt import RustPanic, Unsupported, Out, Ref

FINISHED_BAD = ('FinishedFailure', 'FinishedUpstreamFailure', 'FinishedAborted')


def clone_value(v):
    t = type(v)
    if t is tuple:
        changed = False
        out = []
        for x in v:
            y = clone_value(x)
            if y is not x:
                changed = True
            out.append(y)
        return tuple(out) if changed else v
    c = getattr(v, 'clone', None)
    if c is not None and t is not type:
        if t in (M.RHashMap, M.RHashSet, M.RGraph, rt.RVec, E.SymSet):
            return c()
    return v


def canon_value(v):
    t = type(v)
    if t is tuple:
        return tuple(canon_value(x) for x in v)
    if t is Out:
        return ('O', v.term)
    if t is rt.RVec:
        return ('V',) + tuple(canon_value(x) for x in v.items)
    if t is M.RHashSet or t is E.SymSet:
        return ('S',) + tuple(sorted(v.d.keys(), key=repr))
    if t is M.RHashMap:
        return ('M',) + tuple(sorted(((k, canon_value(x)) for k, x in v.d.items()), key=repr))
    if t is M.RGraph:
        return ('G', tuple(v.order), tuple((n, tuple(v.adj[n])) for n in v.order), tuple(v.eorder),
                tuple(v.ew[e] for e in v.eorder))
    if t in (int, bool, str) or v is None:
        return v
    return ('obj', type(v).__name__)


class Universe:
    """one query: concrete graph + strategy mode + symbolic history/present-set description"""

    def __init__(self, mod, nodes, edges, mode='ident', hist_spec=None, present_spec=None, inputs=None, name='',
                 classes=None):
        self.classes = classes
        self.mod = mod
        self.nodes = list(nodes)
        self.edges = list(edges)
        self.mode = mode
        self.name = name
        self.kind = dict(self.nodes)
        self.ids = [n for n, _ in self.nodes]
        self.ups = {n: [] for n in self.ids}
        self.downs = {n: [] for n in self.ids}
        for d, u in self.edges:
            self.ups[d].append(u)
            self.downs[u].append(d)
        # hist_spec: key -> (value, presence) ; value: str | Out ; presence: True | atom
        self.hist_spec = hist_spec if hist_spec is not None else {}
        # present_spec: job -> True | atom
        self.present_spec = present_spec if present_spec is not None else {}
        self.inputs = inputs or {}
        self.F = mod.STRUCT_FIELDS['PPGEvaluator']
        self.NF = mod.STRUCT_FIELDS['NodeInfo']
        self.exempt = {}
        for n in reversed(self.topo_order()):
            self.exempt[n] = (self.kind[n] == 'Ephemeral' and all(self.exempt[d] for d in self.downs[n]))

    def topo_order(self):
        indeg = {n: len(self.ups[n]) for n in self.ids}
        order = []
        q = [n for n in self.ids if indeg[n] == 0]
        while q:
            x = q.pop(0)
            order.append(x)
            for d in self.downs[x]:
                indeg[d] -= 1
                if indeg[d] == 0:
                    q.append(d)
        return order

    def names(self, j):
        """what get_input_list returns for j under the test convention"""
        if j in self.inputs:
            return self.inputs[j]
        return '\n'.join(sorted(self.ups[j], key=lambda s: s.encode()))

    def make_history(self):
        d = {}
        pres = {}
        for k, (v, p) in self.hist_spec.items():
            d[k] = v
            if p is not True:
                pres[k] = p
        return M.RHashMap(d, pres or None)

    def make_present(self):
        d = {}
        symd = {}
        for j, p in self.present_spec.items():
            if p is True:
                d[j] = True
            else:
                symd[j] = p
        return E.SymSet(d, symd)


class StrategySym:
    """S-rel / S-prod over symbolic values: is_history_altered through the uninterpreted equivalence R"""

    def __init__(self, uni, present):
        self.uni = uni
        self.mode = uni.mode
        self.present = present
        self.name = 'S-' + uni.mode

    def output_already_present(self, query):
        q = rt.D(query)
        if self.mode == 'prod':
            for part in q.split(':::'):
                if not self.present.contains(part):
                    return False
            return True
        return self.present.contains(q)

    def is_history_altered(self, up, down, last, cur):
        a = rt.term_of(rt.D(last))
        b = rt.term_of(rt.D(cur))
        if a == b:
            return False
        if self.mode == 'prod':
            if rt.str_eq(last, cur):
                return False
        if repr(b) < repr(a):
            a, b = b, a
        if self.mode == 'reld':
            return not rt.decide(('Rd', rt.D(up) + '\x02' + rt.D(down), a, b))
        return not rt.decide(('R', a, b))

    def get_input_list(self, node_idx, dag, jobs):
        js = rt.D(jobs)
        jid = js.items[node_idx][0]
        if jid in self.uni.inputs:
            return self.uni.inputs[jid]
        g = rt.D(dag)
        names = sorted((js.items[u][0] for u in g.neighbors_directed(node_idx, M.INC)), key=lambda s: s.encode())
        return '\n'.join(names)


class DriverView:
    """what the driver has done / observed so far (part of the de-duplication key)"""
    __slots__ = ('started', 'running', 'ok', 'failed', 'offered', 'acked', 'aborted', 'seen_ready', 'consumed',
                 'startup_done', 'c16', 'finished', 'errors', 'at_abort', 'blocked', 'val_at_run', 'hist_done')

    def __init__(self):
        self.started = frozenset()
        self.running = frozenset()
        self.ok = ()            # tuple of (job, term) sorted
        self.failed = frozenset()
        self.offered = frozenset()
        self.acked = frozenset()
        self.aborted = False
        self.seen_ready = frozenset()
        self.consumed = ()      # tuple of (job, ((up, term|None), ...))
        self.startup_done = False
        self.c16 = frozenset()  # ephemerals for which EphemeralChangedOutput was reported
        self.finished = False
        self.errors = ()
        self.at_abort = frozenset()   # jobs that were running when the evaluation was aborted
        self.blocked = frozenset()    # C07: not-yet-started jobs behind a failure
        self.val_at_run = ()          # (ephemeral, validation status name) when it was started
        self.hist_done = False

    def clone(self):
        d = DriverView()
        for s in DriverView.__slots__:
            setattr(d, s, getattr(self, s))
        return d

    def canon(self):
        return (self.started, self.running, self.ok, self.failed, self.offered, self.acked, self.aborted,
                self.seen_ready, self.consumed, self.startup_done, self.c16, self.finished, self.errors,
                self.at_abort, self.blocked, self.val_at_run, self.hist_done)

    def ok_dict(self):
        return dict(self.ok)


class State:
    __slots__ = ('eng', 'pc', 'dv', 'parent', 'action', 'depth', 'result', 'hist', 'out', 'sw')

    def __init__(self, eng, pc, dv, parent=None, action=None, result=None):
        self.eng = eng
        self.pc = pc                # dict atom->bool
        self.dv = dv
        self.parent = parent
        self.action = action
        self.result = result
        self.hist = None
        self.out = None             # term reported by the job of an ('ok', j) action
        self.sw = None              # illegal NodeInfo.state writes seen by the write barrier during the event
        self.depth = 0 if parent is None else parent.depth + 1

    def path(self):
        p = []
        s = self
        while s is not None and s.action is not None:
            p.append((s.action, s.result))
            s = s.parent
        p.reverse()
        return p

    def path_outs(self):
        """terms reported at the ('ok', j) steps of path(), None elsewhere"""
        p = []
        s = self
        while s is not None and s.action is not None:
            p.append(s.out)
            s = s.parent
        p.reverse()
        return p

    def fpc(self):
        return frozenset(self.pc.items())


class Violation:
    def __init__(self, prop, what, state, detail=None, model=None, extra_pc=None):
        self.prop = prop
        self.what = what
        self.state = state
        self.detail = detail
        self.model = model
        self.extra_pc = extra_pc      # additional (atom,bool) literals the witness needs


class Explorer:
    def __init__(self, uni, monitors, stats=None, max_states=2000000, abort_actions=True, fail_actions=True,
                 step_budget=1000000, log=None):
        self.uni = uni
        self.mod = uni.mod
        self.z = sym.Z3Ctx(stats)
        self.z.classes = uni.classes
        for ax in getattr(uni, 'axioms', None) or ():
            self.z.add_axiom(self.z.to_z3(ax))
        self.script_out = {}
        self.monitors = monitors
        self.max_states = max_states
        self.abort_actions = abort_actions
        self.fail_actions = fail_actions
        self.step_budget = step_budget
        self.violations = []
        self.finals = []
        self.n_states = 0
        self.n_transitions = 0
        self.n_events = 0
        self.n_forks = 0
        self.seen = set()
        self.log = log
        self.capped = False
        self.sample_paths = []
        for m in monitors:
            m.bind(self)

    # ------------------------------------------------------------------ engine access helpers (white box reads)
    def jobs(self, st):
        return st.eng.cell[0][self.uni.F.index('jobs')].items

    def job_state_name(self, st, jid):
        idx = self.idx_of(st, jid)
        s = self.jobs(st)[idx][1]
        inner = s[1]
        ty = ('JobStateAlways', 'JobStateOutput', 'JobStateEphemeral')[s[0]]
        return self.mod.ENUMS[ty][inner[0]]

    def job_state_full(self, st, jid):
        idx = self.idx_of(st, jid)
        s = self.jobs(st)[idx][1]
        from .scenario import debug_enum
        return debug_enum(self.mod, 'JobState', s)

    def idx_of(self, st, jid):
        return self.uni.ids.index(jid)

    # ------------------------------------------------------------------ state construction
    def initial_state(self):
        uni = self.uni
        rt.STEPS.event = 0
        rt.STEPS.budget = 10 ** 9
        present = uni.make_present()
        if uni.mode == 'ident' and not uni.inputs:
            strat = E.StrategyTest(self.mod, present)
        else:
            strat = StrategySym(uni, present)
        rt.CTX.oracle = None
        eng = E.Engine(self.mod, strat, uni.make_history())
        for n, k in uni.nodes:
            eng.add_node(n, k)
        for d, u in uni.edges:
            eng.depends_on(d, u)
        return State(eng, dict(getattr(uni, 'initial_pc', None) or {}), DriverView())

    def clone_engine(self, eng):
        e2 = E.Engine.__new__(E.Engine)
        e2.mod = eng.mod
        e2.B = eng.B
        e2.strategy = eng.strategy
        e2.cell = [clone_value(eng.cell[0])]
        e2.ref = Ref(e2.cell, 0, ())
        return e2

    def canon(self, st):
        ev = st.eng.cell[0]
        F = self.uni.F
        gen = ev[F.index('gen')][0]
        jobs = tuple((j[0], j[1], canon_value(j[2]), 0 if j[3] == gen else -1) for j in ev[F.index('jobs')].items)
        key = (canon_value(ev[F.index('dag')]), jobs, ev[F.index('already_started')],
               canon_value(ev[F.index('jobs_ready_to_run')]), canon_value(ev[F.index('jobs_ready_for_cleanup')]),
               canon_value(ev[F.index('signals')]), st.dv.canon(), frozenset(st.pc.items()))
        return key

    # ------------------------------------------------------------------ actions
    def legal_actions(self, st):
        dv = st.dv
        if not dv.startup_done:
            return [('startup',)]
        if dv.finished:
            return [] if dv.hist_done else [('history',)]
        acts = []
        eng = st.eng
        ready = sorted(eng.query_ready_to_run())
        running = sorted(eng.query_jobs_running())
        cleanup = sorted(eng.query_ready_for_cleanup())
        for j in ready:
            acts.append(('run', j))
        for j in running:
            acts.append(('ok', j))
            if self.fail_actions:
                acts.append(('fail', j))
        for j in cleanup:
            acts.append(('cleanup', j))
        if self.abort_actions:
            acts.append(('abort',))
        return acts

    def output_term(self, st, j):
        """term a successfully executing job reports; monitors may override via uni.output_term"""
        if j in self.script_out:
            return ('lit', self.script_out[j])
        f = getattr(self.uni, 'output_term', None)
        if f is not None:
            return f(self, st, j)
        return ('o', j)

    def apply(self, st, action, prefix):
        """execute action on a clone of st following decision prefix; returns (new_state, alternatives)"""
        eng = self.clone_engine(st.eng)
        dv = st.dv.clone()
        orc = sym.Oracle(self.z, st.pc, prefix)
        rt.CTX.oracle = orc
        self._sw = []
        rt.CTX.state_hook = self._state_hook
        rt.STEPS.event = 0
        rt.STEPS.budget = self.step_budget
        ns = State(eng, orc.pc, dv, st, action)
        for m in self.monitors:
            m.before_event(st, action, ns)
        k = action[0]
        result = 'ok'
        try:
            if k == 'startup':
                eng.event_startup()
                dv.startup_done = True
            elif k == 'run':
                j = action[1]
                cons = []
                for u in self.uni.ups[j]:
                    r = eng.get_job_output(u)
                    cons.append((u, r[1].term if (r[0] == 'Done' and type(r[1]) is Out) else (('lit', r[1]) if r[0] == 'Done' else None)))
                eng.event_now_running(j)
                dv.started = dv.started | {j}
                dv.running = dv.running | {j}
                dv.consumed = tuple(sorted(dv.consumed + ((j, tuple(cons)),)))
            elif k == 'ok':
                j = action[1]
                t = self.output_term(st, j)
                ns.out = t
                asm = getattr(self.uni, 'output_assume', None)
                if asm is not None:
                    # what is known about the value a job reports (e.g. its content is a function of what it consumed)
                    for a in asm(self, st, j, t):
                        orc.pc[sym.norm_atom(a)] = True
                dv.running = dv.running - {j}
                try:
                    eng.event_job_finished_success(j, t[1] if t[0] == 'lit' else Out(t))
                    dv.ok = tuple(sorted(dv.ok + ((j, t),)))
                except E.EngineError as e:
                    if e.kind == 'EphemeralChangedOutput':
                        dv.failed = dv.failed | {j}
                        dv.c16 = dv.c16 | {j}
                        result = 'err:EphemeralChangedOutput'
                    else:
                        raise
            elif k == 'fail':
                j = action[1]
                dv.running = dv.running - {j}
                dv.failed = dv.failed | {j}
                eng.event_job_finished_failure(j)
            elif k == 'cleanup':
                j = action[1]
                dv.acked = dv.acked | {j}
                eng.event_job_cleanup_done(j)
            elif k == 'history':
                dv.hist_done = True
                ns.hist = eng.new_history()
            elif k == 'abort':
                dv.aborted = True
                dv.at_abort = dv.running
                dv.running = frozenset()
                eng.abort_remaining()
            else:
                raise ValueError(action)
        except E.EngineError as e:
            result = 'err:%s:%s' % (e.kind, rt.D(e.payload[0]) if e.payload else '')
            dv.errors = dv.errors + ((action, result[:60]),)
        except RustPanic as p:
            result = 'panic:' + p.msg
            dv.errors = dv.errors + ((action, result[:60]),)
        except rt.StepBudget:
            result = 'stepbudget'
            dv.errors = dv.errors + ((action, result),)
        finally:
            rt.CTX.oracle = None
            rt.CTX.state_hook = None
            # the per-event budget concerns the event only: monitors' queries afterwards start from zero
            rt.STEPS.event = 0
            rt.STEPS.budget = 10 ** 9
        ns.result = result
        ns.sw = self._sw or None
        self.n_events += 1
        if not result.startswith(('panic', 'stepbudget')):
            try:
                dv.finished = bool(eng.is_finished())
            except RustPanic as p:
                result = 'panic:' + p.msg
                ns.result = result
        for m in self.monitors:
            m.after_event(st, action, ns)
        return ns, orc.alternatives

    def successors(self, st, action):
        out = []
        pending = [()]
        while pending:
            prefix = pending.pop()
            ns, alts = self.apply(st, action, prefix)
            pending.extend(alts)
            self.n_forks += len(alts)
            out.append(ns)
        return out

    _KTY = ('JobStateAlways', 'JobStateOutput', 'JobStateEphemeral')

    def _state_hook(self, old, new):
        """write barrier on NodeInfo.state (C17): lifecycle monotonicity at the instruction where a state changes"""
        self.n_state_writes = getattr(self, 'n_state_writes', 0) + 1
        ko, kn = old[0], new[0]
        E = self.mod.ENUMS
        on = E[self._KTY[ko]][old[1][0]]
        nn = E[self._KTY[kn]][new[1][0]]
        bad = None
        if ko != kn:
            bad = 'the kind of a job changed'
        elif on.startswith('Finished') and not nn.startswith('Finished'):
            bad = 'a finished job became unfinished'
        elif on.startswith('FinishedSuccess') and nn in FINISHED_BAD:
            bad = 'a successfully executed job became failed / upstream-failed / aborted'
        if bad:
            self._sw.append('%s: %s(%s) -> %s(%s)' % (bad, self._KTY[ko][8:], on, self._KTY[kn][8:], nn))

    # ------------------------------------------------------------------ main loop
    def report(self, prop, what, state, detail=None, model=None, extra_pc=None):
        self.violations.append(Violation(prop, what, state, detail, model, extra_pc))

    def run(self, deadline=None):
        init = self.initial_state()
        work = [init]
        while work:
            if deadline is not None and time.time() > deadline:
                self.capped = True
                break
            st = work.pop()
            dead = st.result is not None and st.result.startswith(('panic', 'stepbudget', 'err:InternalError', 'err:APIError'))
            if st.dv.startup_done or dead:
                key = self.canon(st)
                if key in self.seen:
                    continue
                self.seen.add(key)
                self.n_states += 1
                if self.n_states > self.max_states:
                    self.capped = True
                    break
                if not dead:
                    for m in self.monitors:
                        m.on_quiescent(st)
            if dead:
                continue
            if st.dv.finished and st.dv.hist_done:
                self.finals.append(st)
                for m in self.monitors:
                    m.on_final(st)
                if len(self.sample_paths) < 3:
                    self.sample_paths.append(st)
                continue
            for a in self.legal_actions(st):
                for ns in self.successors(st, a):
                    self.n_transitions += 1
                    work.append(ns)
        for m in self.monitors:
            m.at_end()
        return self


def concrete_universe(mod, sc):
    """Universe for a concrete scenario (all records concrete strings, all presences decided)"""
    hist = {k: (v, True) for k, v in sc.hist.items()}
    present = {j: True for j in sc.present}
    return Universe(mod, sc.nodes, sc.edges, sc.strategy, hist, present, inputs=dict(sc.inputs), name=sc.name,
                    classes=dict(sc.classes) if sc.strategy != 'ident' else None)


def run_script(mod, sc, monitors):
    """execute the concrete scenario's events on the generated engine with the monitors attached;
    returns the Explorer (violations in .violations)"""
    uni = concrete_universe(mod, sc)
    ex = Explorer(uni, monitors)
    st = ex.initial_state()
    for ev in sc.events:
        if ev[0] == 'output':
            continue
        if ev[0] == 'ok':
            ex.script_out[ev[1]] = ev[2]
            action = ('ok', ev[1])
        else:
            action = tuple(ev)
        succ = ex.successors(st, action)
        st = succ[0]
        ex.n_transitions += 1
        dead = st.result is not None and st.result.startswith(('panic', 'stepbudget', 'err:InternalError', 'err:APIError'))
        if dead:
            break
        if st.dv.startup_done:
            for m in monitors:
                m.on_quiescent(st)
    if st.dv.finished and st.dv.hist_done and st.result == 'ok':
        for m in monitors:
            m.on_final(st)
    return ex


class Monitor:
    props = ()

    def bind(self, ex):
        self.ex = ex
        self.uni = ex.uni

    def before_event(self, st, action, ns):
        pass

    def after_event(self, st, action, ns):
        pass

    def on_quiescent(self, st):
        pass

    def on_final(self, st):
        pass

    def at_end(self):
        pass

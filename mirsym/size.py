"""H-SIZE (C19): long chains, wide layered graphs and fan-out/fan-in graphs evaluate like small graphs in every cascade shape.

The real MIR of the engine is executed at concrete large sizes; the driver is sequential (one job at a time, cleanups
acknowledged at once: schedules are C14's business).  Per (shape, size, periodic kind pattern):

  evaluation 1  first build from an empty history; variants: the first job that is started fails (root failure),
                abort after k jobs were started
  evaluation 2  from the symbolic history evaluation 1 returned (every record present): re-evaluation of the up-to-date
                project where, symbolically, the result of the first and of the last Output job may have been deleted and the
                first Always job / first re-executed job reports a fresh value (solver-decided "changed or not") -- this covers
                "up to date", "single invalidation at either end" and the cascades that resolve inside one call; variant with
                the first started job failing.

Obligations: every monitor of the single-evaluation harness (no panic / internal error incl. the engine's depth guard,
progress, report consistency, up-to-date and only-necessary-work oracles as z3 validity queries) at every step.
Honest note (DESIGN 7.19): the solver only decides a handful of value/presence atoms here; what matters is executing the
real code at sizes where an internal limit would bite."""
import time, itertools, os
from . import rt, sym as F, explore as X, monitors as Mo, harness as H, chain, cex

KINDS = ['Always', 'Output', 'Ephemeral']


def make_shape(shape, n, pattern):
    """(nodes, edges) ; pattern: tuple of kinds, applied periodically along depth"""
    nodes = []
    edges = []
    if shape == 'chain':
        for i in range(n):
            nodes.append(('J%05d' % i, pattern[i % len(pattern)]))
        for i in range(1, n):
            edges.append(('J%05d' % i, 'J%05d' % (i - 1)))
    elif shape == 'layers':
        w, d = n
        for k in range(d):
            for i in range(w):
                nodes.append(('L%03d_%03d' % (k, i), pattern[k % len(pattern)]))
        for k in range(1, d):
            for i in range(w):
                edges.append(('L%03d_%03d' % (k, i), 'L%03d_%03d' % (k - 1, i)))
                if w > 1:
                    edges.append(('L%03d_%03d' % (k, i), 'L%03d_%03d' % (k - 1, (i + 1) % w)))
    elif shape == 'fan':
        nodes.append(('R', pattern[0]))
        for i in range(n - 2):
            nodes.append(('M%05d' % i, pattern[1 % len(pattern)]))
            edges.append(('M%05d' % i, 'R'))
        nodes.append(('Z', pattern[2 % len(pattern)]))
        for i in range(n - 2):
            edges.append(('Z', 'M%05d' % i))
    elif shape == 'echain':
        # an Output, a long run of Ephemerals, an Output: the on-demand logic has to look through the whole run
        for i in range(n):
            nodes.append(('J%05d' % i, 'Ephemeral' if 0 < i < n - 1 else (pattern[0] if pattern[0] != 'Ephemeral' else 'Output')))
        for i in range(1, n):
            edges.append(('J%05d' % i, 'J%05d' % (i - 1)))
    elif shape == 'elayers':
        # an Output, d fully connected layers of w Ephemerals (w^d paths), a layer of Outputs
        w, d = n
        nodes.append(('R', 'Output'))
        for k in range(d):
            for i in range(w):
                nodes.append(('E%03d_%03d' % (k, i), 'Ephemeral'))
        for i in range(w):
            nodes.append(('Z%03d' % i, pattern[0] if pattern[0] != 'Ephemeral' else 'Output'))
        for i in range(w):
            edges.append(('E000_%03d' % i, 'R'))
        for k in range(1, d):
            for i in range(w):
                for i2 in range(w):
                    edges.append(('E%03d_%03d' % (k, i), 'E%03d_%03d' % (k - 1, i2)))
        for i in range(w):
            for i2 in range(w):
                edges.append(('Z%03d' % i, 'E%03d_%03d' % (d - 1, i2)))
        if len(pattern) > 1 and pattern[1] == 'Always':
            # a trigger below the layers: its changed output invalidates the final Outputs late, while every Ephemeral layer
            # above is still parked -- the requirement then has to travel up through all layers
            nodes.append(('T', 'Always'))
            for i in range(w):
                edges.append(('Z%03d' % i, 'T'))
    elif shape == 'etail':
        # one producing job and below it a layered tail of Ephemerals nobody consumes (pruned at startup)
        w, d = n
        nodes.append(('R', pattern[0] if pattern[0] != 'Ephemeral' else 'Output'))
        for k in range(d):
            for i in range(w):
                nodes.append(('T%03d_%03d' % (k, i), 'Ephemeral'))
        for i in range(w):
            edges.append(('T000_%03d' % i, 'R'))
        for k in range(1, d):
            for i in range(w):
                for i2 in range(w):
                    edges.append(('T%03d_%03d' % (k, i), 'T%03d_%03d' % (k - 1, i2)))
    else:
        raise ValueError(shape)
    # the last job of a graph must not be an Ephemeral nobody needs, or whole tails are pruned: keep as given (that
    # pruning at size is part of what is checked)
    return nodes, edges


class SeqExplorer(X.Explorer):
    """sequential driver; no subsumption (paths are linear apart from solver-decided forks)"""

    def __init__(self, uni, monitors, fail_first=False, abort_after=None, **kw):
        X.Explorer.__init__(self, uni, monitors, **kw)
        self.fail_first = fail_first
        self.abort_after = abort_after

    def legal_actions(self, st):
        dv = st.dv
        if not dv.startup_done:
            return [('startup',)]
        if dv.finished:
            return [] if dv.hist_done else [('history',)]
        eng = st.eng
        cleanup = eng.query_ready_for_cleanup()
        if cleanup:
            return [('cleanup', min(cleanup))]
        running = eng.query_jobs_running()
        if running:
            j = min(running)
            if self.fail_first and len(dv.started) == 1:
                return [('fail', j)]
            return [('ok', j)]
        if self.abort_after is not None and len(dv.started) >= self.abort_after:
            return [('abort',)]
        ready = eng.query_ready_to_run()
        if ready:
            return [('run', min(ready))]
        return []

    def run(self, deadline=None):
        work = [self.initial_state()]
        while work:
            if deadline is not None and time.time() > deadline:
                self.capped = True
                break
            st = work.pop()
            dead = st.result is not None and st.result.startswith(('panic', 'stepbudget', 'err:InternalError', 'err:APIError'))
            if st.dv.startup_done and not dead:
                self.n_states += 1
                for m in self.monitors:
                    m.on_quiescent(st)
            if dead:
                continue
            if st.dv.finished and st.dv.hist_done:
                self.finals.append(st)
                for m in self.monitors:
                    m.on_final(st)
                continue
            acts = self.legal_actions(st)
            if not acts and not st.dv.finished:
                continue            # stall: reported by the safety monitor (C05)
            for a in acts:
                for ns in self.successors(st, a):
                    self.n_transitions += 1
                    work.append(ns)
            # the path is linear: the engine value of an expanded state is not needed again (only its action/result for
            # counterexample paths); dropping it keeps memory at O(n) instead of O(n * path length) at 4000 jobs
            st.eng = None
        for m in self.monitors:
            m.at_end()
        return self


def monitors():
    return [Mo.SafetyMonitor(), Mo.OracleMonitor()]


def first_of(uni, kind):
    for j in uni.topo_order():
        if uni.kind[j] == kind:
            return j
    return None


def last_of(uni, kind):
    r = None
    for j in uni.topo_order():
        if uni.kind[j] == kind:
            r = j
    return r


def run_instance(mod, shape, n, pattern, deadline=None):
    """returns (stats, violations[{prop, what, scenario...}])"""
    nodes, edges = make_shape(shape, n, pattern)
    stats = {'jobs': len(nodes), 'edges': len(edges), 'states': 0, 'transitions': 0, 'events': 0, 'finals': 0, 'evaluations': 0,
             'obligations': 0, 'discharged': 0, 'capped': False, 'max_events_in_one_call': 0}
    viols = []
    z = None

    def account(ex, mons):
        stats['states'] += ex.n_states
        stats['transitions'] += ex.n_transitions
        stats['events'] += ex.n_events
        stats['finals'] += len(ex.finals)
        stats['evaluations'] += 1
        stats['capped'] = stats['capped'] or ex.capped
        for m in mons:
            if isinstance(m, Mo.OracleMonitor):
                stats['obligations'] += m.obligations
                stats['discharged'] += m.discharged

    def collect(ex, label, prev=None):
        seen = set()
        for v in ex.violations:
            k = (v.prop, v.what[:50])
            if k in seen or len(viols) >= 4:
                continue
            seen.add(k)
            try:
                pc = frozenset(v.state.pc.items())
                model = v.model or ex.z.model_for(pc)
                c = cex.Concretizer(ex.z, ex.uni, model)
                rec = {'prop': 'C19', 'orig_prop': v.prop, 'what': '[%s %s %r, %s] %s: %s' % (shape, n, '/'.join(k[0] for k in pattern), label, v.prop, v.what),
                       'depth': v.state.depth, 'pc': []}
                if prev is not None:
                    pex, pst = prev
                    rec['scenario'] = c.scenario(pex.uni, pst.path(), 'build', outs=pst.path_outs()).to_json()
                    rec['scenario2'] = c.scenario(ex.uni, v.state.path(), 'rerun', outs=v.state.path_outs()).to_json()
                    rec['chain'] = True
                else:
                    rec['scenario'] = c.scenario(ex.uni, v.state.path(), 'build', outs=v.state.path_outs()).to_json()
                viols.append(rec)
            except rt.Unsupported as e:
                stats.setdefault('concretize_errors', []).append(str(e)[:200])

    # ---- evaluation 1: first build (empty history, nothing present)
    uni = X.Universe(mod, nodes, edges, 'ident', {}, {}, name='%s_%s' % (shape, n))
    built = None
    nj = len(nodes)
    # above ~1000 jobs the first build (2 driver events per job, each with whole-graph invariant checks) dominates the cost
    # without adding anything over the 600-job runs: the cascades that resolve inside ONE call are in the re-evaluation.  There
    # the re-evaluation starts from the history a complete build leaves (H-BUILT), constructed directly.
    direct = nj > int(os.environ.get('MIRSYM_SIZE_DIRECT', '1000'))
    first_variants = () if direct else (('first build', {}), ('first build, root failure', {'fail_first': True}),
                                        ('first build, abort after 1 start', {'abort_after': 1}),
                                        ('first build, abort midway', {'abort_after': max(1, nj // 2)}))
    stats['first_build_executed'] = not direct
    for label, kw in first_variants:
        mons = monitors()
        ex = SeqExplorer(uni, mons, max_states=10 ** 9, step_budget=10 ** 6 + 100000 * nj, **kw)
        if z is not None:
            ex.z = z
        z = ex.z
        ex.run(deadline=deadline)
        account(ex, mons)
        collect(ex, label)
        if label == 'first build' and len(nodes) <= 12 and ex.finals:
            _s = ex.finals[0]
            stats['sample'] = {'shape': shape, 'n': n, 'pattern': list(pattern), 'path': [[list(a), r] for a, r in _s.path()]}
        if label == 'first build':
            ok = [s for s in ex.finals if s.result == 'ok' and s.hist is not None and not s.dv.failed]
            if ok:
                built = (ex, ok[0])
    if direct:
        u2 = H.built_universe(mod, nodes, edges, 'ident', name='%s_%s+built' % (shape, n))
        ex1 = st1 = None
    elif built is None:
        if not viols:
            viols.append({'prop': 'C19', 'orig_prop': 'C05', 'what': '[%s %s] first build did not complete' % (shape, n), 'depth': 0, 'pc': [],
                          'scenario': None})
        stats['solver'] = z.stats.to_json()
        return stats, viols
    if not direct:
        ex1, st1 = built
        # ---- evaluation 2: re-evaluation from the returned history
        u2 = chain.followup_universe(ex1, st1)
    else:
        for j, k in nodes:
            if k == 'Output':
                u2.present_spec[j] = True
    fo = first_of(u2, 'Output')
    lo = last_of(u2, 'Output')
    for j in set(x for x in (fo, lo) if x is not None):
        u2.present_spec[j] = ('present2', j)
    fa = first_of(u2, 'Always')
    fresh = set(x for x in (fa, fo) if x is not None)

    def output_term(ex, st, j):
        if j in fresh:
            return ('o2', j)
        # every other job that is re-executed reproduces what it produced in the build (the same term as its record)
        return ('h', j) if direct else ('o', j)
    u2.output_term = output_term
    for label, kw in (('re-evaluation', {}), ('re-evaluation, root failure', {'fail_first': True}),
                      ('re-evaluation, abort after 1 start', {'abort_after': 1})):
        mons = monitors()
        ex = SeqExplorer(u2, mons, max_states=10 ** 9, step_budget=10 ** 6 + 100000 * nj, **kw)
        if z is not None:
            ex.z = z
        z = ex.z
        ex.run(deadline=deadline)
        account(ex, mons)
        collect(ex, label, prev=(ex1, st1) if ex1 is not None else None)
    stats['solver'] = z.stats.to_json()
    return stats, viols
